#!/bin/bash
# Generator audit: which lines of strum_macros do the generated corpora (and the C20 grammar) reach?
# Builds the in-process harness with coverage instrumentation, feeds it every enum definition of the
# quick corpora plus the C07/C20 in-process runs, and prints the lines of strum_macros/src/{helpers,macros}
# that were never executed. Not a registered check; a tool for widening generators.
set -e
ROOT="$(cd "$(dirname "$0")/.." && pwd)"
OUT=${1:-/tmp/gencov}
TOOLS=$(dirname "$(rustup which --toolchain nightly rustc)")/../lib/rustlib/x86_64-unknown-linux-gnu/bin
rm -rf $OUT && mkdir -p $OUT/prof
(cd $ROOT/engine && RUSTFLAGS="-C instrument-coverage" CARGO_NET_OFFLINE=true cargo +nightly build --offline --release -q -p vinproc --target-dir $OUT/target)
$ROOT/engine/target/release/vcheck --dump-items $OUT/items.json
export LLVM_PROFILE_FILE=$OUT/prof/v-%p-%m.profraw
$OUT/target/release/vinproc accepts $OUT/items.json $OUT/accepts.json
$OUT/target/release/vinproc c20 quick 1 $OUT/c20.json
$OUT/target/release/vinproc c07 quick 1 $OUT/c07.json
$TOOLS/llvm-profdata merge -sparse $OUT/prof/*.profraw -o $OUT/merged.profdata
$TOOLS/llvm-cov report --instr-profile=$OUT/merged.profdata --object $OUT/target/release/vinproc 2>/dev/null | grep -E "strum_macros/src|^Filename" | awk '{print $1, "regions-missed="$3, "lines-missed="$9}'
$TOOLS/llvm-cov show --instr-profile=$OUT/merged.profdata --object $OUT/target/release/vinproc --show-line-counts-or-regions 2>/dev/null > $OUT/show.txt
python3 - "$OUT/show.txt" <<'PY'
import sys,re
cur=None; show=False
for l in open(sys.argv[1]):
    if l.rstrip().endswith(':') and '/' in l and not l.startswith(' '):
        cur=l.strip().rstrip(':'); show=('strum_macros/src' in cur and 'from_repr' not in cur); continue
    if not show: continue
    m=re.match(r'\s*(\d+)\|\s*0\|(.*)',l)
    if m and m.group(2).strip() and not m.group(2).strip().startswith('//'):
        print('never executed: %s:%s: %s' % (cur.split('strum_macros/src/')[1], m.group(1), m.group(2).rstrip()[:110]))
PY
