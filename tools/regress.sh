#!/bin/bash
# regress.sh <lane> <verif-dir> <ID> : re-run every stored change of <ID> whose final result was "caught" against its caught_by checks
lane=$1; vd=$2; id=$3
for d in /verif/seeded/$id-*; do
  python3 - "$d" <<'PY' > /tmp/rg-$lane.env
import json,sys
m=json.load(open(sys.argv[1]+'/meta.json'))
ok = m.get('check_result_final','caught')=='caught' or m.get('caught_by')
print("RUN=%d" % (1 if ok else 0)); print("CHK='%s'" % " ".join(m.get('caught_by') or []))
PY
  . /tmp/rg-$lane.env
  [ "$RUN" = 1 ] || continue
  [ -n "$CHK" ] || CHK=$id
  base=""
  for c in $(git -C /repo log --format=%h -n 16); do
    if git -C /repo worktree list >/dev/null && (cd /repo && git show $c:strum_macros/src/lib.rs >/dev/null 2>&1); then
      tmp=/tmp/rgwt-$lane
      [ -d $tmp ] || git -C /repo worktree add -q --detach $tmp HEAD
      git -C $tmp checkout -q --detach $c
      if git -C $tmp apply --check $d/patch.diff 2>/dev/null; then base=$c; break; fi
    fi
  done
  if [ -z "$base" ]; then echo "$(basename $d) NOBASE"; continue; fi
  r=$(VERIF_DIR=$vd MUTBASE=$base MUTWT=/tmp/rgwt-$lane FAST=1 /verif/tools/trymutant.sh $d $CHK 2>&1 | grep -E "^(OK|VIOLATION|INCONCLUSIVE)" | cut -c1-30 | sort | uniq -c | tr '\n' ';')
  echo "$(basename $d) base=$base checks=$CHK -> $r"
done
git -C /repo worktree remove --force /tmp/rgwt-$lane; rm -rf /tmp/rgwt-$lane*
echo LANE-DONE
