#!/usr/bin/env python3
"""Regenerates /verif/MANIFEST.json from tools/claims.json (one entry per claimed property)."""
import json, os, sys
root = os.path.dirname(os.path.dirname(os.path.abspath(__file__)))
claims = json.load(open(os.path.join(root, "tools", "claims.json")))
props = [json.loads(l) for l in open(os.path.join(root, "properties.jsonl"))]
checks = []
na = []
for p in props:
    pid = p["id"]
    c = claims.get(pid)
    if c is None or c.get("not_applicable"):
        na.append({"property_id": pid, "reason": (c or {}).get("reason", "check under construction in this session; not claimed yet")})
        continue
    checks.append({
        "property_id": pid,
        "quick_cmd": f"bin/check {pid} quick",
        "thorough_cmd": f"bin/check {pid} thorough",
        "evidence_file": f"/verif/evidence/{pid}.json",
        "replay_cmd_template": f"bin/check {pid} --replay {{path}}",
        "engine": c["engine"],
        "level_claimed": {"category": "exploration", "text": c["text"], "design_ref": c.get("design_ref", f"DESIGN.md §6 {pid}")},
        "level_note": c["note"],
        "technique": c["technique"],
    })
m = {
    "version": 1,
    "setup_cmd": "cd /verif/engine && CARGO_NET_OFFLINE=true cargo build --offline --release -p vcheck && cd /verif && bin/check --warm",
    "hooks": {
        "guard": "strum_verif",
        "enable": "none needed: the checks build /repo's crates as path dependencies and #[path]-include the macro sources; no hook commits exist",
        "baseline_off_cmd": "cd /repo && cargo test --workspace --no-fail-fast --offline",
        "source_commits": [],
        "add_only": True,
    },
    "engines": [
        {"name": "A-corpus", "path": "engine/vcheck + engine/vrt + engine/vmodel", "serves_properties": [c["property_id"] for c in checks if "A" in c["engine"]],
         "kind_free_text": "proptest-seeded generator of enum definitions -> emitted crate compiled by rustc against /repo -> shard binaries run property checkers (proptest runners + exhaustive loops) against an independent reference model"},
        {"name": "B-inprocess", "path": "engine/vinproc", "serves_properties": [c["property_id"] for c in checks if "B" in c["engine"]],
         "kind_free_text": "strum_macros' helper and macro modules #[path]-included into a normal binary; *_inner functions called directly on generated DeriveInputs"},
        {"name": "C-libfuzzer", "path": "fuzz", "serves_properties": [c["property_id"] for c in checks if "C" in c["engine"]],
         "kind_free_text": "cargo-fuzz targets with the semantic oracle inside the target (thorough tiers only)"},
    ],
    "checks": checks,
    "not_applicable": na,
    "notes": "All checks: exit 0 held / exit 1 VIOLATION / exit 2 inconclusive (harness or build problem, watchdog). VERIF_SEED selects the PRNG seed (default 20261003).",
}
json.dump(m, open(os.path.join(root, "MANIFEST.json"), "w"), indent=1)
print("claimed:", [c["property_id"] for c in checks], "not claimed:", [n["property_id"] for n in na])
