#!/bin/bash
# tools/trymutant.sh <mutant-dir> <ID> [more IDs...]
# Confirms a seeded change in a scratch worktree (applies, existing tests pass, demo fails with / passes without),
# then runs the given checks against it (REPO_ROOT) and reports which ones flag it.
set -u
D="$1"; shift
WT=${MUTWT:-/tmp/mutrun}
if [ ! -d $WT ]; then git -C /repo worktree add -q $WT HEAD; fi
cd $WT && git checkout -q -- . && git clean -fdq -e target && git checkout -q --detach "${MUTBASE:-$(git -C /repo rev-parse HEAD)}"
export CARGO_TARGET_DIR=$WT/target CARGO_NET_OFFLINE=true
DEMO=""
[ -f "$D/demo_test.rs" ] && DEMO="$D/demo_test.rs"
FEAT=""
grep -q test_phf "$D/meta.json" 2>/dev/null && FEAT="--features test_phf"
# a demonstration that only fails in a release build says so in its meta.json
REL=""
grep -q -- "--release" "$D/meta.json" 2>/dev/null && REL="--release"
# a demonstration crate that needs one of its own features says so in its meta.json
DFEAT=""
grep -q -- "cargo build --offline --features std" "$D/meta.json" 2>/dev/null && DFEAT="--features std"
DEMODIR=""
[ -d "$D/demo_crate" ] && DEMODIR="$D/demo_crate"
[ -d "$D/demo" ] && DEMODIR="$D/demo"
run_demo() {
  if [ -n "$DEMO" ]; then
    cp "$DEMO" $WT/strum_tests/tests/demo_test.rs
    (cd $WT && timeout 900 cargo test --offline $REL -p strum_tests $FEAT --test demo_test >$WT.demo.log 2>&1); r=$?
    rm -f $WT/strum_tests/tests/demo_test.rs
    return $r
  fi
  if [ -n "$DEMODIR" ]; then
    rm -rf $WT/demo_x && cp -r "$DEMODIR" $WT/demo_x && rm -rf $WT/demo_x/target $WT/demo_x/Cargo.lock
    find $WT/demo_x -name Cargo.toml -exec sed -i -E "s#/tmp/mut/C[0-9]+/#$WT/#g" {} +
    cp /repo/Cargo.lock $WT/demo_x/Cargo.lock 2>/dev/null
    if [ -f $WT/demo_x/run.sh ]; then
      (cd $WT/demo_x && sed -i -E "s#/tmp/mut/C[0-9]+/#$WT/#g" run.sh && CARGO_TARGET_DIR=$WT/target/demo_x timeout 900 sh run.sh >$WT.demo.log 2>&1); r=$?
      tail -2 $WT.demo.log
    else
      (cd $WT/demo_x && CARGO_TARGET_DIR=$WT/target/demo_x timeout 900 cargo build --offline $REL $DFEAT >$WT.demo.log 2>&1); r=$?
    fi
    rm -rf $WT/demo_x
    return $r
  fi
  return 99
}
if [ -z "${FAST:-}" ]; then echo "== clean tree: demo"; run_demo; echo "demo exit (clean) = $?"; fi
if ! git -C $WT apply --check "$D/patch.diff" 2>$WT.apply.err; then echo "PATCH DOES NOT APPLY: $(cat $WT.apply.err | head -3)"; exit 3; fi
git -C $WT apply "$D/patch.diff"
if [ -z "${FAST:-}" ]; then
echo "== mutated tree: existing tests"
(cd $WT && timeout 1800 cargo test --workspace --no-fail-fast --offline 2>&1 | grep -E "^test result|FAILED|error(\[|:)" | awk '/test result/{p+=$4; f+=$6} /FAILED|error/{print} END {print "passed",p,"failed",f}')
echo "== mutated tree: demo"; run_demo; echo "demo exit (mutated) = $?"
fi
for id in "$@"; do
  echo "== check $id"
  (cd ${VERIF_DIR:-/verif} && REPO_ROOT=$WT VERIF_NO_REDUCE=${VERIF_NO_REDUCE:-1} timeout 1800 bin/check $id quick 2>&1 | grep -E "^(OK|VIOLATION|INCONCLUSIVE|KNOWN|  kind)" | cut -c1-400 | head -6)
done
cd $WT && git checkout -q -- .
