//! C07: VariantNames under every accepted serialize_all style equals the independent word scanner,
//! for arbitrary identifiers decoded from the input.
#![no_main]
use libfuzzer_sys::fuzz_target;
use vmodel::model;

const ALPHA: [char; 24] = ['a', 'b', 'z', 'A', 'B', 'Z', '0', '1', '9', '_', 'é', 'É', 'ñ', 'Ñ', '日', 'x', 'X', 'm', 'M', 'q', 'Q', 'ö', 'Ö', 'ø'];

fuzz_target!(|data: &[u8]| {
    if data.len() < 2 || data.len() > 40 {
        return;
    }
    let style = if data[0] as usize % 17 == 16 { None } else { Some(model::STYLES[data[0] as usize % 17]) };
    // two decodings: alphabet-indexed (dense in interesting shapes) or raw UTF-8
    let ident: String = if data[1] & 1 == 0 {
        data[2..].iter().map(|b| ALPHA[*b as usize % ALPHA.len()]).collect()
    } else {
        match std::str::from_utf8(&data[2..]) {
            Ok(s) => s.to_string(),
            Err(_) => return,
        }
    };
    // syn's parser skips surrounding whitespace: insist on identifier characters only
    if ident.is_empty() || ident == "_" || !ident.chars().all(|c| c == '_' || c.is_alphanumeric()) || syn::parse_str::<syn::Ident>(&ident).is_err() {
        return;
    }
    // characters whose upper-case mapping expands (ß, ŉ, ǰ ...) are outside the asserted domain (DESIGN O6)
    if ident.chars().any(|c| c.to_uppercase().count() != 1 || c.to_lowercase().count() != 1 || c == 'Σ') {
        return;
    }
    let mut src = String::new();
    if let Some(st) = style {
        src.push_str(&format!("#[strum(serialize_all = {:?})]\n", st));
    }
    src.push_str(&format!("enum E {{ {} }}", ident));
    match vinproc::expand("VariantNames", &src) {
        vinproc::Outcome::Ok(tokens) => {
            let lits = vinproc::string_literals(&tokens);
            let want = model::case(&ident, style);
            if lits.len() != 1 || lits[0] != want {
                eprintln!("C07-VIOLATION {{\"kind\":\"case:{}\",\"input\":{{\"ident\":{:?},\"style\":{:?}}},\"expected\":{:?},\"actual\":{:?}}}", style.unwrap_or("none"), ident, style.unwrap_or(""), want, format!("{:?}", lits));
                std::process::abort();
            }
        }
        other => {
            eprintln!("C07-VIOLATION {{\"kind\":\"case:expansion-failed\",\"input\":{{\"ident\":{:?}}},\"actual\":{:?}}}", ident, format!("{:?}", other));
            std::process::abort();
        }
    }
});
