//! C20: the macro bodies never panic, required-reject cells return Err, controls are accepted.
//! Bytes drive the malformed-input grammar (structured mode), token mutations, or are taken as raw
//! source text. The semantic oracle (vinproc::judge) runs inside the target.
#![no_main]
use libfuzzer_sys::fuzz_target;
use vmodel::gen::Rg;
use vmodel::malformed;

fn report(kind: &str, derive: &str, src: &str, detail: &str) -> ! {
    // strict mode: any oracle failure is a crash with a self-describing message
    eprintln!("C20-VIOLATION {}", vinproc::violation_json(kind, derive, src, detail));
    std::process::abort();
}

fuzz_target!(|data: &[u8]| {
    if data.len() < 3 {
        return;
    }
    let mode = data[0] % 4;
    let mut rg = Rg::from_bytes(&data[1..]);
    match mode {
        0 | 1 => {
            // grammar case on the derive chosen by the input
            let rule = malformed::RULES[rg.below(malformed::RULES.len())];
            let case = malformed::gen_case(&mut rg, rule);
            let d = malformed::ALL_DERIVES[rg.below(17)];
            if vinproc::NOT_IN_PROCESS.contains(&d) {
                return;
            }
            if let (_, Some((kind, e, a))) = vinproc::judge(&case, d) {
                report(&kind, d, &case.source, &format!("expected {} / actual {}", e, a));
            }
        }
        2 => {
            // token mutation of a grammar case or a control: never a panic
            let base = if rg.chance(1, 3) {
                let c = malformed::controls();
                c[rg.below(c.len())].source.clone()
            } else {
                let rule = malformed::RULES[rg.below(malformed::RULES.len())];
                malformed::gen_case(&mut rg, rule).source
            };
            let m = vinproc::mutate(&mut rg, &base);
            let d = malformed::ALL_DERIVES[rg.below(17)];
            if vinproc::NOT_IN_PROCESS.contains(&d) {
                return;
            }
            let case = malformed::Case { rule: "mutated".into(), variation: String::new(), source: m, must_reject: vec![], must_accept: vec![] };
            if let (_, Some((kind, e, a))) = vinproc::judge(&case, d) {
                report(&kind, d, &case.source, &format!("expected {} / actual {}", e, a));
            }
        }
        _ => {
            // raw text
            let d = malformed::ALL_DERIVES[(data[1] % 17) as usize];
            if vinproc::NOT_IN_PROCESS.contains(&d) {
                return;
            }
            if let Ok(src) = std::str::from_utf8(&data[2..]) {
                if let vinproc::Outcome::Panic(p) = vinproc::expand(d, src) {
                    report("macro-panic", d, src, &p);
                }
            }
        }
    }
});
