//! Engine A: emit a corpus crate, build it with cargo (JSON diagnostics), attribute errors,
//! run the shard binaries in parallel and collect their reports.

use serde_json::Value;
use std::collections::{BTreeMap, BTreeSet};
use std::io::Read;
use std::path::{Path, PathBuf};
use std::process::{Command, Stdio};
use std::time::{Duration, Instant};
use vmodel::emit::ModuleSrc;
use vmodel::spec::EnumSpec;

pub const NSHARDS: usize = 16;

#[derive(Clone, Copy, PartialEq, Eq, Debug)]
pub enum Policy {
    /// a compile error is a violation only when all errors of the module sit on lines / ranges
    /// tagged for the running property; otherwise the program is removed from the run
    TaggedOnly,
    /// every compile error attributed to a generated module is a violation (C19)
    AllErrors,
}

pub struct Env {
    pub verif: PathBuf,
    pub repo: PathBuf,
}

impl Env {
    pub fn from_env() -> Env {
        Env {
            verif: PathBuf::from(std::env::var("VERIF_ROOT").unwrap_or_else(|_| "/verif".into())),
            repo: PathBuf::from(std::env::var("REPO_ROOT").unwrap_or_else(|_| "/repo".into())),
        }
    }
    pub fn target_dir(&self) -> PathBuf {
        self.verif.join("target/corpus")
    }
}

pub struct Item {
    pub spec: EnumSpec,
    pub module: ModuleSrc,
}

pub struct CrateCfg {
    /// lower-case id used in package / bin names, e.g. "c01"
    pub id: String,
    pub dir: PathBuf,
    pub strum_features: Vec<String>,
    /// extra lines for [dependencies]
    pub extra_deps: Vec<String>,
    /// header lines for each shard file (crate attributes)
    pub header: Vec<String>,
    /// "dev" or "rel"
    pub profile: String,
    pub strum_dep_name: String,
    pub strum_default_features: bool,
    pub lib_only: bool,
    pub with_vrt: bool,
    pub target_dir: Option<PathBuf>,
    /// only every n-th program is part of this build (release builds of quick tiers)
    pub every_nth: usize,
    /// build the library as a cdylib with panic = "abort": a final artifact, so a hidden dependency on an
    /// allocator shows up when it is linked
    pub cdylib: bool,
    /// further Cargo.toml text (e.g. a [features] table of the user crate)
    pub extra_toml: String,
}

impl CrateCfg {
    pub fn new(env: &Env, id: &str, sub: &str) -> CrateCfg {
        CrateCfg {
            id: id.to_lowercase(),
            dir: env.verif.join("work").join(id).join(sub),
            strum_features: vec!["derive".into()],
            extra_deps: vec![],
            header: vec!["#![allow(warnings)]".into()],
            profile: "dev".into(),
            strum_dep_name: "strum".into(),
            strum_default_features: true,
            lib_only: false,
            with_vrt: true,
            target_dir: None,
            every_nth: 1,
            cdylib: false,
            extra_toml: String::new(),
        }
    }
}

#[derive(Clone, Debug)]
pub struct CompileError {
    /// rustc error code (E0599 ...); None for compile_error! / parse errors
    pub code: Option<String>,
    pub enum_name: Option<String>,
    pub tag: Option<String>,
    pub message: String,
    pub rendered: String,
    pub file: String,
    pub line: usize,
}

pub struct ShardLayout {
    pub file: String,
    /// (first line, last line, enum name)
    pub modules: Vec<(usize, usize, String)>,
    /// (line, tag)
    pub tags: Vec<(usize, String)>,
    /// (first, last, tag)
    pub ranges: Vec<(usize, usize, String)>,
    pub enums: Vec<String>,
}

pub struct Emitted {
    pub layouts: Vec<ShardLayout>,
}

fn bin_name(cfg: &CrateCfg, i: usize) -> String {
    format!("{}_{}_s{:02}", cfg.id, cfg.profile, i)
}

/// Write Cargo.toml / lockfile / shard sources for the items not in `removed`.
pub fn emit_crate(env: &Env, cfg: &CrateCfg, items: &[Item], removed: &BTreeSet<String>) -> std::io::Result<Emitted> {
    let src_dir = cfg.dir.join("src/bin");
    std::fs::create_dir_all(&src_dir)?;
    let features: Vec<String> = cfg.strum_features.iter().map(|f| format!("\"{}\"", f)).collect();
    let strum_dep = if cfg.strum_dep_name == "strum" {
        format!(
            "strum = {{ path = \"{}\", default-features = {}, features = [{}] }}",
            env.repo.join("strum").display(),
            cfg.strum_default_features,
            features.join(", ")
        )
    } else {
        format!(
            "{} = {{ package = \"strum\", path = \"{}\", default-features = {}, features = [{}] }}",
            cfg.strum_dep_name,
            env.repo.join("strum").display(),
            cfg.strum_default_features,
            features.join(", ")
        )
    };
    let toml = format!(
        r#"[package]
name = "corpus_{id}"
version = "0.0.0"
edition = "2021"

{lib}
[dependencies]
{strum}
{vrt}
{extra}

{extra_toml}
[workspace]

[profile.dev]
opt-level = 0
debug = 0
incremental = false
{panic}

[profile.dev.package."*"]
opt-level = 2

[profile.release]
opt-level = 1
debug = 0
incremental = false
overflow-checks = false
debug-assertions = false
{panic}

[profile.release.package."*"]
opt-level = 2
"#,
        id = cfg.id,
        extra_toml = cfg.extra_toml,
        lib = if cfg.cdylib { "[lib]\ncrate-type = [\"cdylib\"]\n" } else { "" },
        panic = if cfg.cdylib { "panic = \"abort\"" } else { "" },
        strum = strum_dep,
        vrt = if cfg.with_vrt { format!("vrt = {{ path = \"{}\" }}", env.verif.join("engine/vrt").display()) } else { String::new() },
        extra = cfg.extra_deps.join("\n"),
    );
    write_if_changed(&cfg.dir.join("Cargo.toml"), &toml)?;
    let lock = cfg.dir.join("Cargo.lock");
    if !lock.exists() {
        std::fs::copy(env.verif.join("engine/Cargo.lock"), &lock)?;
    }
    let mut layouts = Vec::new();
    if cfg.lib_only {
        // one library crate holding every module
        let mut text = String::new();
        let mut line = 0usize;
        for h in &cfg.header {
            text.push_str(h);
            text.push('\n');
            line += 1;
        }
        let mut lay = ShardLayout { file: "src/lib.rs".to_string(), modules: vec![], tags: vec![], ranges: vec![], enums: vec![] };
        for it in items.iter() {
            if removed.contains(&it.spec.name) {
                continue;
            }
            let first = line + 1;
            text.push_str(&it.module.src.text);
            for (l, t) in &it.module.src.tags {
                lay.tags.push((line + l, t.clone()));
            }
            line += it.module.src.line;
            lay.modules.push((first, line, it.spec.name.clone()));
            lay.enums.push(it.spec.name.clone());
        }
        let _ = std::fs::remove_dir_all(cfg.dir.join("src/bin"));
        write_if_changed(&cfg.dir.join("src/lib.rs"), &text)?;
        layouts.push(lay);
        return Ok(Emitted { layouts });
    }
    for sh in 0..NSHARDS {
        let mut text = String::new();
        let mut line = 0usize;
        for h in &cfg.header {
            text.push_str(h);
            text.push('\n');
            line += 1;
        }
        let mut lay = ShardLayout { file: format!("src/bin/{}.rs", bin_name(cfg, sh)), modules: vec![], tags: vec![], ranges: vec![], enums: vec![] };
        let mut runs = Vec::new();
        for (k, it) in items.iter().enumerate() {
            if k % NSHARDS != sh || removed.contains(&it.spec.name) || (k / NSHARDS) % cfg.every_nth != 0 {
                continue;
            }
            let first = line + 1;
            text.push_str(&it.module.src.text);
            for (l, t) in &it.module.src.tags {
                lay.tags.push((line + l, t.clone()));
            }
            for (a, b, t) in &it.module.src.ranges {
                lay.ranges.push((line + a, line + b, t.clone()));
            }
            line += it.module.src.line;
            lay.modules.push((first, line, it.spec.name.clone()));
            lay.enums.push(it.spec.name.clone());
            runs.push(format!("(\"{}\", m_{}::run as vrt::RunFn)", it.spec.name, it.spec.name.to_lowercase()));
        }
        text.push_str(&format!("fn main() {{ vrt::main_shard(&[{}]); }}\n", runs.join(", ")));
        write_if_changed(&cfg.dir.join(&lay.file), &text)?;
        layouts.push(lay);
    }
    // shard sources of another profile (or of an earlier run) must not be built along
    if let Ok(rd) = std::fs::read_dir(&src_dir) {
        for f in rd.filter_map(|e| e.ok()) {
            let rel = format!("src/bin/{}", f.file_name().to_string_lossy());
            if rel.ends_with(".rs") && !layouts.iter().any(|l| l.file == rel) {
                let _ = std::fs::remove_file(f.path());
            }
        }
    }
    Ok(Emitted { layouts })
}

fn write_if_changed(p: &Path, s: &str) -> std::io::Result<()> {
    if let Ok(old) = std::fs::read_to_string(p) {
        if old == s {
            return Ok(());
        }
    }
    if let Some(d) = p.parent() {
        std::fs::create_dir_all(d)?;
    }
    std::fs::write(p, s)
}

pub struct BuildResult {
    pub success: bool,
    pub errors: Vec<CompileError>,
    /// errors that could not be attributed to a generated module
    pub foreign: Vec<CompileError>,
    pub wall: f64,
    pub timed_out: bool,
    pub stderr_tail: String,
}

/// run a command with a watchdog; returns (status code or None on timeout, stdout, stderr)
pub fn run_with_timeout(mut cmd: Command, timeout: Duration) -> (Option<i32>, String, String) {
    cmd.stdout(Stdio::piped()).stderr(Stdio::piped());
    let mut child = cmd.spawn().expect("spawn");
    let mut so = child.stdout.take().unwrap();
    let mut se = child.stderr.take().unwrap();
    let t1 = std::thread::spawn(move || {
        let mut s = String::new();
        let _ = so.read_to_string(&mut s);
        s
    });
    let t2 = std::thread::spawn(move || {
        let mut s = Vec::new();
        let _ = se.read_to_end(&mut s);
        String::from_utf8_lossy(&s).to_string()
    });
    let start = Instant::now();
    let code = loop {
        match child.try_wait().expect("wait") {
            Some(st) => break Some(st.code().unwrap_or(-1)),
            None => {
                if start.elapsed() > timeout {
                    let _ = child.kill();
                    let _ = child.wait();
                    break None;
                }
                std::thread::sleep(Duration::from_millis(20));
            }
        }
    };
    (code, t1.join().unwrap_or_default(), t2.join().unwrap_or_default())
}

pub fn cargo_build(env: &Env, cfg: &CrateCfg, em: &Emitted, check_only: bool) -> BuildResult {
    let start = Instant::now();
    let mut cmd = Command::new("cargo");
    cmd.arg(if check_only { "check" } else { "build" }).arg("--offline").arg("--message-format=json").arg(if cfg.lib_only { "--lib" } else { "--bins" });
    if cfg.profile == "rel" {
        cmd.arg("--release");
    }
    cmd.arg("--keep-going");
    cmd.current_dir(&cfg.dir)
        .env("CARGO_TARGET_DIR", cfg.target_dir.clone().unwrap_or_else(|| env.target_dir()))
        .env("CARGO_NET_OFFLINE", "true")
        .env_remove("RUSTFLAGS")
        .env_remove("STRUM_DEBUG");
    let (code, out, err) = run_with_timeout(cmd, Duration::from_secs(15 * 60));
    let mut errors = Vec::new();
    let mut foreign = Vec::new();
    for l in out.lines() {
        let v: Value = match serde_json::from_str(l) {
            Ok(v) => v,
            Err(_) => continue,
        };
        if v["reason"] != "compiler-message" {
            continue;
        }
        let m = &v["message"];
        if m["level"] != "error" {
            continue;
        }
        let msg = m["message"].as_str().unwrap_or("").to_string();
        if msg.starts_with("aborting due to") {
            continue;
        }
        let rendered = m["rendered"].as_str().unwrap_or("").to_string();
        let code = m["code"]["code"].as_str().map(|s| s.to_string());
        // primary span in one of our shard files
        let mut placed = false;
        if let Some(spans) = m["spans"].as_array() {
            let mut cands: Vec<&Value> = spans.iter().filter(|s| s["is_primary"] == true).collect();
            cands.extend(spans.iter().filter(|s| s["is_primary"] != true));
            for s in cands {
                let file = s["file_name"].as_str().unwrap_or("");
                let line = s["line_start"].as_u64().unwrap_or(0) as usize;
                if let Some(lay) = em.layouts.iter().find(|l| file.ends_with(&l.file)) {
                    let en = lay.modules.iter().find(|(a, b, _)| line >= *a && line <= *b).map(|x| x.2.clone());
                    let tag = lay
                        .tags
                        .iter()
                        .find(|(l, _)| *l == line)
                        .map(|x| x.1.clone())
                        .or_else(|| lay.ranges.iter().find(|(a, b, _)| line >= *a && line <= *b).map(|x| x.2.clone()));
                    let ce = CompileError { code: code.clone(), enum_name: en.clone(), tag, message: msg.clone(), rendered: rendered.clone(), file: file.to_string(), line };
                    if en.is_some() {
                        errors.push(ce);
                    } else {
                        foreign.push(ce);
                    }
                    placed = true;
                    break;
                }
            }
        }
        if !placed {
            foreign.push(CompileError { code: code.clone(), enum_name: None, tag: None, message: msg, rendered, file: String::new(), line: 0 });
        }
    }
    let tail: String = err.lines().rev().take(30).collect::<Vec<_>>().into_iter().rev().collect::<Vec<_>>().join("\n");
    BuildResult { success: code == Some(0), errors, foreign, wall: start.elapsed().as_secs_f64(), timed_out: code.is_none(), stderr_tail: tail }
}

pub struct ShardRun {
    pub reports: Vec<vrt::ShardReport>,
    pub timed_out: Vec<usize>,
    pub crashed: Vec<(usize, String)>,
    /// (enum, message): the shard process died of a signal while exercising this enum, and does so again when it is
    /// given this enum alone
    pub aborted: Vec<(String, String)>,
    /// the enums that were being exercised when the watchdog stopped a shard
    pub hung_on: Vec<String>,
}

pub fn run_shards(env: &Env, cfg: &CrateCfg, em: &Emitted, items: &[Item], input_tpl: &vrt::ShardInput, timeout: Duration) -> ShardRun {
    let io = cfg.dir.join("io");
    std::fs::create_dir_all(&io).unwrap();
    let mut handles = Vec::new();
    for (sh, lay) in em.layouts.iter().enumerate() {
        if lay.enums.is_empty() {
            continue;
        }
        let mut inp = input_tpl.clone();
        inp.specs = items.iter().filter(|it| lay.enums.contains(&it.spec.name)).map(|it| it.spec.clone()).collect();
        let inp_path = io.join(format!("in_{}_{:02}.json", cfg.profile, sh));
        let out_path = io.join(format!("out_{}_{:02}.json", cfg.profile, sh));
        let _ = std::fs::remove_file(&out_path);
        std::fs::write(&inp_path, serde_json::to_string(&inp).unwrap()).unwrap();
        let exe = env.target_dir().join(if cfg.profile == "rel" { "release" } else { "debug" }).join(bin_name(cfg, sh));
        handles.push(std::thread::spawn(move || {
            let mut cmd = Command::new(&exe);
            cmd.arg(&inp_path).arg(&out_path);
            let (code, _out, err) = run_with_timeout(cmd, timeout);
            // killed by a signal (stack overflow, abort): which enum was being exercised, and does it happen again
            // when the shard is given that enum alone?
            let mut aborted = None;
            let died = matches!(code, Some(c) if c == -1 || c == 134 || c == 139) || err.contains("overflowed its stack");
            if died {
                let cur = std::fs::read_to_string(format!("{}.cur", out_path.display())).ok();
                if let (Some(name), Ok(txt)) = (cur, std::fs::read_to_string(&inp_path)) {
                    if let Ok(mut one) = serde_json::from_str::<vrt::ShardInput>(&txt) {
                        one.specs.retain(|s| s.name == name);
                        let p1 = inp_path.with_extension("one.json");
                        let o1 = out_path.with_extension("one.json");
                        std::fs::write(&p1, serde_json::to_string(&one).unwrap()).unwrap();
                        let mut cmd = Command::new(&exe);
                        cmd.arg(&p1).arg(&o1);
                        let (c2, _o2, e2) = run_with_timeout(cmd, timeout);
                        let died2 = matches!(c2, Some(c) if c == -1 || c == 134 || c == 139) || e2.contains("overflowed its stack");
                        if died2 && one.specs.len() == 1 {
                            aborted = Some((name, e2.lines().rev().take(3).collect::<Vec<_>>().join(" | ")));
                        }
                    }
                }
            }
            (sh, code, err, out_path, aborted)
        }));
    }
    let mut res = ShardRun { reports: vec![], timed_out: vec![], crashed: vec![], aborted: vec![], hung_on: vec![] };
    for h in handles {
        let (sh, code, err, out_path, aborted) = h.join().unwrap();
        if let Some(a) = aborted {
            res.aborted.push(a);
            continue;
        }
        match code {
            None => {
                res.timed_out.push(sh);
                if let Ok(n) = std::fs::read_to_string(format!("{}.cur", out_path.display())) {
                    res.hung_on.push(n);
                }
            }
            Some(0) => match std::fs::read_to_string(&out_path).ok().and_then(|s| serde_json::from_str::<vrt::ShardReport>(&s).ok()) {
                Some(r) => res.reports.push(r),
                None => res.crashed.push((sh, "no report written".into())),
            },
            Some(c) => res.crashed.push((sh, format!("exit {}: {}", c, err.lines().rev().take(5).collect::<Vec<_>>().join(" | ")))),
        }
    }
    res
}

#[derive(Default)]
pub struct Agg {
    pub programs: u64,
    pub evaluations: u64,
    pub nontrivial: u64,
    pub classes: BTreeMap<String, u64>,
    pub exhaustive: BTreeMap<String, u64>,
    pub samples: Vec<Value>,
    pub failures: Vec<vrt::Failure>,
    pub panicked: Vec<(String, String, Option<(String, u32)>)>,
}

impl Agg {
    pub fn add(&mut self, r: &vrt::ShardReport) {
        for e in &r.enums {
            self.programs += 1;
            self.evaluations += e.evaluations;
            self.nontrivial += e.nontrivial;
            for (k, v) in &e.classes {
                *self.classes.entry(k.clone()).or_insert(0) += v;
            }
            for (k, v) in &e.exhaustive {
                *self.exhaustive.entry(k.clone()).or_insert(0) += v;
            }
            if self.samples.len() < 6 {
                for s in e.samples.iter().take(1) {
                    self.samples.push(s.clone());
                }
            }
            self.failures.extend(e.failures.iter().cloned());
            if let Some(p) = &e.panicked {
                self.panicked.push((e.name.clone(), p.clone(), e.panic_at.clone()));
            }
        }
    }
}
