//! vcheck: driver for all checks.  `vcheck <ID> quick|thorough`, `vcheck <ID> --replay <file>`, `vcheck --warm`.
//! Exit codes: 0 held, 1 violation (prints `VIOLATION property=<id> replay=<path>`), 2 inconclusive.

mod c19;
mod corpus;
mod fuzz;
mod inproc;
mod props;

use corpus::*;
use serde_json::{json, Value};
use std::collections::{BTreeMap, BTreeSet};
use std::path::PathBuf;
use std::time::{Duration, Instant};
use vmodel::spec::EnumSpec;

pub struct Violation {
    pub kind: String,
    pub enum_name: String,
    pub spec: Option<EnumSpec>,
    pub detail: Value,
    pub profile: String,
}

pub struct Outcome {
    pub agg: Agg,
    pub violations: Vec<Violation>,
    pub removed: Vec<(String, String)>,
    pub inconclusive: Option<String>,
    pub extra: BTreeMap<String, Value>,
    pub rule: String,
    pub assumptions: Vec<String>,
}

fn seed_from_env() -> u64 {
    std::env::var("VERIF_SEED").ok().and_then(|s| s.trim().parse::<u64>().ok()).unwrap_or(20261003)
}

/// Build one corpus (with the remove-and-rebuild loop) and run it. Returns per-profile results merged into `out`.
pub fn run_corpus(
    env: &Env,
    id: &str,
    sub: &str,
    plan: &props::Plan,
    items: &[Item],
    tier: &str,
    seed: u64,
    replay: Option<Value>,
    out: &mut Outcome,
) {
    // programs that did not survive the dev build (violation or removed); a program that builds in the dev profile
    // and fails only in the release build is a violation whatever the reason: no legitimate change of strum makes
    // acceptance depend on the build profile
    let mut failed_in_dev: Option<BTreeSet<String>> = None;
    for profile in &plan.profiles {
        // derived code that recursed without bound in the dev build (caught there as a death by signal) is an endless
        // loop in the release build, which would only be seen by the watchdog
        if out.violations.iter().any(|v| v.kind.starts_with("abort:")) {
            break;
        }
        let mut cfg = CrateCfg::new(env, id, sub);
        cfg.strum_features = plan.strum_features.clone();
        cfg.profile = profile.to_string();
        // a property whose statement names both profiles (C05, C10) builds everything twice; for the others the
        // release build (no overflow checks, no debug assertions) takes every fourth program in the quick tier
        if *profile == "rel" && tier == "quick" && !matches!(id, "C05" | "C10") && items.len() > 8 {
            cfg.every_nth = 4;
        }
        // the phf feature must not depend on strum's default features (`std`): the release build goes without them
        if *profile == "rel" && id == "C16" {
            cfg.strum_default_features = false;
        }
        let mut removed: BTreeSet<String> = BTreeSet::new();
        let mut em;
        let mut iter = 0;
        loop {
            iter += 1;
            em = emit_crate(env, &cfg, items, &removed).expect("emit");
            let b = cargo_build(env, &cfg, &em, false);
            if b.timed_out {
                out.inconclusive = Some("cargo build watchdog".into());
                return;
            }
            if !b.foreign.is_empty() {
                out.inconclusive = Some(format!("build error outside generated modules: {}", b.foreign[0].rendered.lines().take(12).collect::<Vec<_>>().join("\n")));
                return;
            }
            if b.success {
                break;
            }
            if b.errors.is_empty() {
                out.inconclusive = Some(format!("cargo failed without attributable diagnostics:\n{}", b.stderr_tail));
                return;
            }
            // group by enum
            let mut by_enum: BTreeMap<String, Vec<&CompileError>> = BTreeMap::new();
            for e in &b.errors {
                by_enum.entry(e.enum_name.clone().unwrap()).or_default().push(e);
            }
            let mut progress = false;
            let mine = |e: &&CompileError| e.tag.as_deref().map(|t| t.starts_with(&format!("{}:", id))).unwrap_or(false);
            // programs whose ENUM DEFINITION (derive expansion) no longer compiles: ask the macros
            // in-process whether they accepted it; accepted + rejected by rustc = generated code is broken
            let suspects: Vec<(String, Vec<String>, String)> = by_enum
                .iter()
                .filter(|(_, errs)| !errs.iter().all(mine) && errs.iter().any(|e| e.tag.as_deref() == Some("def")))
                .filter_map(|(en, _)| {
                    items.iter().find(|i| &i.spec.name == en).map(|i| {
                        let tn = i.spec.type_name();
                        let eo = vmodel::emit::enum_opts(&i.spec, &tn);
                        (en.clone(), i.spec.derives.clone(), vmodel::emit::enum_item(&i.spec, &eo).replace("vrt::MyErr", "MyErr"))
                    })
                })
                .collect();
            let accepted = if suspects.is_empty() { BTreeMap::new() } else { inproc::accepted_by_macros(env, id, &suspects) };
            for (en, errs) in by_enum {
                // undecided in-process (FromRepr only): a macro's own rejection is a compile_error! without
                // an error code, an error WITH a code inside the definition is rustc rejecting generated code
                let broken_expansion = match accepted.get(&en) {
                    Some(b) => *b,
                    None => {
                        let fr_only = items.iter().find(|i| i.spec.name == en).map(|i| i.spec.derives.iter().all(|d| d == "FromRepr")).unwrap_or(false);
                        fr_only && errs.iter().any(|e| e.tag.as_deref() == Some("def") && e.code.is_some())
                    }
                };
                // a plain program (documented constructs only, spelled the ordinary way) must build: whoever rejects
                // it - rustc or the derive itself - the property's domain has shrunk
                let plain = items.iter().find(|i| i.spec.name == en).map(|i| vmodel::plain::is_plain(&i.spec)).unwrap_or(false);
                let release_only = *profile == "rel" && failed_in_dev.as_ref().map_or(false, |d| !d.contains(&en));
                // a derive that PANICS on a program the unchanged tree compiles has not tightened its validation
                // (that would be a diagnostic of its own): the program cannot be rendered / parsed / iterated at all
                let derive_panicked = errs.iter().any(|e| e.tag.as_deref() == Some("def") && (e.message.contains("proc-macro derive panicked") || e.rendered.contains("proc-macro derive panicked")));
                let is_violation = match plan.policy {
                    Policy::AllErrors => true,
                    Policy::TaggedOnly => errs.iter().all(mine) || broken_expansion || plain || release_only || derive_panicked,
                };
                if removed.insert(en.clone()) {
                    progress = true;
                }
                let first = errs[0];
                if is_violation {
                    let spec = items.iter().find(|i| i.spec.name == en).map(|i| i.spec.clone());
                    let first = if broken_expansion && !errs.iter().all(mine) { errs.iter().find(|e| e.tag.as_deref() == Some("def")).copied().unwrap_or(first) } else { first };
                    out.violations.push(Violation {
                        kind: if broken_expansion && !errs.iter().all(mine) {
                            "compile:generated-code-rejected-by-rustc".to_string()
                        } else if derive_panicked && !plain {
                            "compile:derive-panicked".to_string()
                        } else if !errs.iter().all(mine) && release_only && !plain {
                            "compile:fails-only-in-the-release-build".to_string()
                        } else if !errs.iter().all(mine) {
                            "compile:documented-input-rejected-by-derive".to_string()
                        } else {
                            format!("compile:{}", first.tag.clone().unwrap_or_else(|| "error".into()))
                        },
                        enum_name: en.clone(),
                        spec,
                        detail: json!({"message": first.message, "rendered": first.rendered, "line": first.line}),
                        profile: profile.to_string(),
                    });
                } else {
                    // C17: the derive rejected the program with a diagnostic of its own. If what is left of the enum
                    // when everything but its interpolating literals is taken away is rejected too, the derive
                    // refuses a literal that format! accepts - which the statement says it renders like format!
                    let mut literal_rejected = false;
                    if id == "C17" {
                        if let Some(core) = items.iter().find(|i| i.spec.name == en).and_then(|i| vmodel::plain::format_core(&i.spec)) {
                            let tn = core.type_name();
                            let eo = vmodel::emit::enum_opts(&core, &tn);
                            let item = (en.clone(), core.derives.clone(), vmodel::emit::enum_item(&core, &eo));
                            if inproc::accepted_by_macros(env, id, &[item]).get(&en) == Some(&false) {
                                literal_rejected = true;
                                out.violations.push(Violation {
                                    kind: "compile:C17:literal-format-accepts-rejected-by-derive".to_string(),
                                    enum_name: en.clone(),
                                    spec: Some(core),
                                    detail: json!({"message": first.message, "rendered": first.rendered, "line": first.line}),
                                    profile: profile.to_string(),
                                });
                            }
                        }
                    }
                    if !literal_rejected {
                        out.removed.push((en.clone(), first.message.clone()));
                    }
                }
            }
            if !progress || iter >= 5 {
                out.inconclusive = Some("rebuild loop did not converge".into());
                return;
            }
        }
        if removed.len() * 4 > items.len() && items.len() >= 8 {
            out.inconclusive = Some(format!("{} of {} programs removed for compile errors", removed.len(), items.len()));
            return;
        }
        if *profile == "dev" {
            failed_in_dev = Some(removed.clone());
        }
        let input = vrt::ShardInput {
            property: id.to_string(),
            tier: tier.to_string(),
            seed,
            params: plan.params.clone(),
            specs: vec![],
            replay: replay.clone(),
        };
        let timeout = Duration::from_secs(if tier == "thorough" { 40 * 60 } else { 10 * 60 });
        let sr = run_shards(env, &cfg, &em, items, &input, timeout);
        if !sr.timed_out.is_empty() {
            out.inconclusive = Some(format!("shard watchdog: shards {:?} (exercising {:?} when stopped)", sr.timed_out, sr.hung_on));
            return;
        }
        if !sr.crashed.is_empty() {
            out.inconclusive = Some(format!("shard crashed: {:?}", sr.crashed));
            return;
        }
        // the process died of a signal (unbounded recursion, abort) while exercising one enum, and again when given
        // that enum alone: the derived code of that enum neither returned nor panicked
        for (name, msg) in &sr.aborted {
            let spec = items.iter().find(|i| &i.spec.name == name).map(|i| i.spec.clone());
            out.violations.push(Violation {
                kind: "abort:process-died-while-exercising-enum".into(),
                enum_name: name.clone(),
                spec,
                detail: json!({"message": msg}),
                profile: profile.to_string(),
            });
        }
        for r in &sr.reports {
            out.agg.add(r);
        }
        for (name, msg, at) in std::mem::take(&mut out.agg.panicked) {
            // an uncaught panic raised on a line of the enum definition comes out of derived code (expansions carry
            // the derive's call-site span): a violation. Anywhere else it is the harness's own problem.
            let in_def = at.as_ref().map_or(false, |(file, line)| {
                em.layouts.iter().any(|l| file.ends_with(&l.file) && l.ranges.iter().any(|(a, b, t)| t == "def" && (*line as usize) >= *a && (*line as usize) <= *b) && l.modules.iter().any(|(a, b, n)| n == &name && (*line as usize) >= *a && (*line as usize) <= *b))
            });
            if in_def {
                let spec = items.iter().find(|i| i.spec.name == name).map(|i| i.spec.clone());
                out.violations.push(Violation {
                    kind: "panic:in-derived-code".into(),
                    enum_name: name.clone(),
                    spec,
                    detail: json!({"message": msg, "at": at}),
                    profile: profile.to_string(),
                });
            } else {
                out.inconclusive = Some(format!("checker panicked on {}: {} (at {:?})", name, msg, at));
            }
        }
        for f in std::mem::take(&mut out.agg.failures) {
            let spec = items.iter().find(|i| i.spec.name == f.enum_name).map(|i| i.spec.clone());
            out.violations.push(Violation {
                kind: f.kind.clone(),
                enum_name: f.enum_name.clone(),
                spec,
                detail: json!({"input": f.input, "expected": f.expected, "actual": f.actual}),
                profile: profile.to_string(),
            });
        }
    }
}

fn new_outcome() -> Outcome {
    Outcome { agg: Agg::default(), violations: vec![], removed: vec![], inconclusive: None, extra: BTreeMap::new(), rule: String::new(), assumptions: vec![] }
}

/// evaluate one spec alone (reduction / replay). Returns the violations found.
fn eval_single(env: &Env, id: &str, spec: &EnumSpec, tier: &str, seed: u64, replay: Option<Value>, profiles: Option<Vec<&'static str>>) -> Outcome {
    let mut plan = props::plan(id, "quick", seed, 0);
    plan.specs = vec![spec.clone()];
    if let Some(p) = profiles {
        plan.profiles = p;
    }
    let items: Vec<Item> = plan.specs.iter().map(|s| Item { spec: s.clone(), module: props::module_for(id, s) }).collect();
    let mut out = new_outcome();
    run_corpus(env, id, "single", &plan, &items, tier, seed, replay, &mut out);
    out
}

fn reduce(env: &Env, id: &str, v: &Violation, seed: u64) -> EnumSpec {
    let mut cur = v.spec.clone().unwrap();
    let mut builds = 0;
    let profile: &'static str = if v.profile == "rel" { "rel" } else { "dev" };
    'outer: loop {
        for c in vmodel::reduce::candidates(&cur) {
            if builds >= 30 {
                break 'outer;
            }
            builds += 1;
            let o = if id == "C19" {
                c19::replay(env, &json!({"spec": c, "profile": v.profile})).1
            } else {
                eval_single(env, id, &c, "quick", seed, None, Some(vec![profile]))
            };
            if o.inconclusive.is_none() && o.violations.iter().any(|x| x.kind == v.kind) {
                cur = c;
                continue 'outer;
            }
        }
        break;
    }
    cur
}

fn source_of(id: &str, spec: &EnumSpec) -> String {
    if id == "C19" {
        return vmodel::emit::enum_def(spec, &vmodel::emit::enum_opts(spec, &spec.type_name()));
    }
    props::module_for(id, spec).src.text
}

fn write_replay(env: &Env, id: &str, v: &Violation, reduced: Option<&EnumSpec>, seed: u64) -> PathBuf {
    let dir = env.verif.join("replays");
    std::fs::create_dir_all(&dir).unwrap();
    let spec = reduced.or(v.spec.as_ref());
    let h = vmodel::fnv(format!("{}{}{:?}", v.kind, v.enum_name, spec.map(|s| s.hash64())).as_bytes());
    let path = dir.join(format!("{}-{:016x}.json", id, h));
    let doc = json!({
        "property": id,
        "kind": v.kind,
        "profile": v.profile,
        "seed": seed,
        "spec": spec,
        "original_spec": v.spec,
        "source": spec.map(|s| source_of(id, s)),
        "detail": v.detail,
    });
    std::fs::write(&path, serde_json::to_string_pretty(&doc).unwrap()).unwrap();
    path
}

// ---------------------------------------------------------------------------------------------
// known findings

#[derive(serde::Deserialize, Clone, Debug)]
struct Finding {
    property: String,
    status: String,
    /// substring of the violation kind
    kind: String,
    /// optional substring that must occur in the JSON of the (reduced) counter-example
    #[serde(default)]
    needle: String,
    description: String,
}

fn load_findings(env: &Env) -> Vec<Finding> {
    let p = env.verif.join("known_findings.json");
    match std::fs::read_to_string(&p) {
        Ok(s) => {
            let v: Value = serde_json::from_str(&s).expect("known_findings.json");
            serde_json::from_value(v["findings"].clone()).unwrap_or_default()
        }
        Err(_) => vec![],
    }
}

fn matches_finding(f: &Finding, id: &str, v: &Violation) -> bool {
    if f.status != "open" || f.property != id || !v.kind.contains(&f.kind) {
        return false;
    }
    if f.needle.is_empty() {
        return true;
    }
    let hay = format!("{}{}", serde_json::to_string(&v.spec).unwrap_or_default(), serde_json::to_string(&v.detail).unwrap_or_default());
    hay.contains(&f.needle)
}

// ---------------------------------------------------------------------------------------------

fn write_evidence(env: &Env, id: &str, tier: &str, seed: u64, out: &Outcome, wall: f64, nviol: usize) {
    let mut cov = serde_json::Map::new();
    cov.insert("evaluations".into(), json!(out.agg.evaluations));
    cov.insert("distinct_nontrivial".into(), json!(out.agg.nontrivial));
    cov.insert("rule".into(), json!(out.rule));
    cov.insert("samples".into(), json!(out.agg.samples));
    cov.insert("programs".into(), json!(out.agg.programs));
    cov.insert("classes".into(), json!(out.agg.classes));
    let ex: Vec<Value> = out.agg.exhaustive.iter().map(|(k, v)| json!({"subspace": k, "size": v})).collect();
    cov.insert("exhaustive_subspaces".into(), json!(ex));
    cov.insert("exhaustive".into(), json!(false));
    cov.insert("removed_programs".into(), json!(out.removed.len()));
    if !out.removed.is_empty() {
        cov.insert("removed_samples".into(), json!(out.removed.iter().take(3).collect::<Vec<_>>()));
    }
    if let Some(i) = &out.inconclusive {
        cov.insert("inconclusive".into(), json!(i));
    }
    for (k, v) in &out.extra {
        cov.insert(k.clone(), v.clone());
    }
    let ev = json!({
        "property_id": id,
        "tier": tier,
        "seed": seed,
        "level": "exploration",
        "coverage": Value::Object(cov),
        "assumptions": out.assumptions,
        "wall_s": wall,
        "violations": nviol,
    });
    // evidence/ describes /repo itself; a run against another tree (REPO_ROOT, e.g. a scratch worktree with a seeded
    // change) leaves it alone
    let dir = if env.repo == std::path::Path::new("/repo") { env.verif.join("evidence") } else { env.verif.join("work").join("evidence-other-tree") };
    std::fs::create_dir_all(&dir).unwrap();
    std::fs::write(dir.join(format!("{}.json", id)), serde_json::to_string_pretty(&ev).unwrap()).unwrap();
}

fn is_corpus_property(id: &str) -> bool {
    !matches!(id, "C20" | "C19")
}

fn run_check(env: &Env, id: &str, tier: &str, seed: u64) -> i32 {
    let start = Instant::now();
    let mut out = new_outcome();
    // replay tier first: saved regressions
    let regress_dir = env.verif.join("regress").join(id);
    let mut regress_files: Vec<PathBuf> = std::fs::read_dir(&regress_dir)
        .map(|d| d.filter_map(|e| e.ok()).map(|e| e.path()).filter(|p| p.extension().map(|x| x == "json").unwrap_or(false)).collect())
        .unwrap_or_default();
    regress_files.sort();
    let mut regress_run = 0;
    for f in &regress_files {
        let (code, o) = replay_file(env, id, f, seed);
        regress_run += 1;
        if code == 1 {
            for v in o.violations {
                out.violations.push(v);
            }
        } else if code == 2 {
            out.inconclusive = o.inconclusive;
        }
        out.agg.evaluations += o.agg.evaluations;
    }
    out.extra.insert("regression_files_replayed".into(), json!(regress_run));

    // a replayed finding that is listed as open does not stop the search for others
    let open_findings = load_findings(env);
    let unlisted = out.violations.iter().any(|v| !open_findings.iter().any(|f| matches_finding(f, id, v)));
    if !unlisted && out.inconclusive.is_none() {
        if is_corpus_property(id) && std::env::var("VERIF_FUZZ_ONLY").is_err() {
            for round in 0..props::rounds(id, tier) {
                let plan = props::plan(id, tier, seed, round);
                out.rule = plan.rule.clone();
                out.assumptions = plan.assumptions.clone();
                let items: Vec<Item> = plan.specs.iter().map(|s| Item { spec: s.clone(), module: props::module_for(id, s) }).collect();
                let n_plain = plan.specs.iter().filter(|s| vmodel::plain::is_plain(s)).count() as u64;
                let prev = out.extra.get("plain_programs").and_then(|v| v.as_u64()).unwrap_or(0);
                out.extra.insert("plain_programs".into(), json!(prev + n_plain));
                run_corpus(env, id, "main", &plan, &items, tier, seed, None, &mut out);
                if out.inconclusive.is_some() || out.violations.iter().any(|v| !open_findings.iter().any(|f| matches_finding(f, id, v))) {
                    break;
                }
            }
        }
        if id == "C19" {
            c19::run(env, tier, seed, &mut out);
        }
        if std::env::var("VERIF_FUZZ_ONLY").is_err() {
            inproc::run(env, id, tier, seed, &mut out);
        }
        // Engine C: coverage-guided fuzzing, thorough tier only
        let unlisted = out.violations.iter().any(|v| !open_findings.iter().any(|f| matches_finding(f, id, v)));
        if tier == "thorough" && !unlisted && out.inconclusive.is_none() && std::env::var("VERIF_NO_FUZZ").is_err() {
            match id {
                "C01" | "C05" | "C12" | "C16" | "C18" => fuzz::run_generated(env, id, seed, &mut out),
                "C07" => fuzz::run_static(env, id, "fz_case", seed, &mut out),
                "C20" => fuzz::run_static(env, id, "fz_macro", seed, &mut out),
                _ => {}
            }
        }
    }
    let wall = start.elapsed().as_secs_f64();

    // classify violations against the known-findings file
    let findings = load_findings(env);
    let mut real: Vec<&Violation> = Vec::new();
    let mut known: BTreeSet<String> = BTreeSet::new();
    for v in &out.violations {
        match findings.iter().find(|f| matches_finding(f, id, v)) {
            Some(f) => {
                known.insert(f.description.clone());
            }
            None => real.push(v),
        }
    }
    for k in &known {
        println!("KNOWN-FINDING: property={} {}", id, k);
    }
    out.extra.insert("known_findings_observed".into(), json!(known.len()));
    write_evidence(env, id, tier, seed, &out, wall, real.len());
    if let Some(v) = real.first() {
        // one replay per root cause (kind)
        let mut seen = BTreeSet::new();
        for v in real.iter().take(4) {
            if !seen.insert(v.kind.clone()) {
                continue;
            }
            let reduced = if v.spec.is_some() && (is_corpus_property(id) || id == "C19") && std::env::var("VERIF_NO_REDUCE").is_err() { Some(reduce(env, id, v, seed)) } else { None };
            let p = write_replay(env, id, v, reduced.as_ref(), seed);
            println!("VIOLATION property={} replay={}", id, p.display());
            let d = v.detail.to_string();
            println!("  kind={} enum={} detail={}", v.kind, v.enum_name, d.chars().take(700).collect::<String>());
        }
        let _ = v;
        cleanup(env, id);
        return 1;
    }
    cleanup(env, id);
    if let Some(i) = &out.inconclusive {
        eprintln!("INCONCLUSIVE property={} reason={}", id, i);
        return 2;
    }
    println!(
        "OK property={} tier={} seed={} programs={} evaluations={} distinct_nontrivial={} wall_s={:.1}",
        id, tier, seed, out.agg.programs, out.agg.evaluations, out.agg.nontrivial, wall
    );
    0
}

fn cleanup(env: &Env, id: &str) {
    if std::env::var("VERIF_KEEP_WORK").is_err() {
        let _ = std::fs::remove_dir_all(env.verif.join("work").join(id));
        // the shard binaries of this property (dependencies stay cached)
        let pre = format!("{}_", id.to_lowercase());
        let pre2 = format!("corpus_{}", id.to_lowercase());
        for sub in ["debug", "debug/deps", "release", "release/deps", "debug/.fingerprint", "release/.fingerprint"] {
            let d = env.target_dir().join(sub);
            if let Ok(rd) = std::fs::read_dir(&d) {
                for e in rd.filter_map(|e| e.ok()) {
                    let n = e.file_name().to_string_lossy().to_string();
                    if n.starts_with(&pre) || n.starts_with(&pre2) || n.starts_with(&format!("lib{}", pre2)) {
                        let p = e.path();
                        if p.is_dir() {
                            let _ = std::fs::remove_dir_all(&p);
                        } else {
                            let _ = std::fs::remove_file(&p);
                        }
                    }
                }
            }
        }
    }
}

fn replay_file(env: &Env, id: &str, path: &std::path::Path, seed: u64) -> (i32, Outcome) {
    let doc: Value = serde_json::from_str(&std::fs::read_to_string(path).expect("read replay")).expect("parse replay");
    if id == "C19" {
        return c19::replay(env, &doc);
    }
    if !is_corpus_property(id) || doc["spec"].is_null() {
        return inproc::replay(env, id, &doc);
    }
    let spec: EnumSpec = serde_json::from_value(doc["spec"].clone()).expect("spec");
    let kind = doc["kind"].as_str().unwrap_or("").to_string();
    let profile: &'static str = if doc["profile"] == "rel" { "rel" } else { "dev" };
    let input = if kind.starts_with("compile:") || doc["detail"]["input"].is_null() { None } else { Some(doc["detail"]["input"].clone()) };
    let o = eval_single(env, id, &spec, "quick", doc["seed"].as_u64().unwrap_or(seed), input, Some(vec![profile]));
    let code = if o.inconclusive.is_some() {
        2
    } else if !o.violations.is_empty() {
        1
    } else {
        0
    };
    (code, o)
}

fn main() {
    let args: Vec<String> = std::env::args().collect();
    let env = Env::from_env();
    if args.len() >= 2 && args[1] == "--warm" {
        std::process::exit(warm(&env));
    }
    if args.len() >= 3 && args[1] == "--dump-items" {
        // generator audit: every enum definition the quick corpora would contain, as input for
        // `vinproc accepts` built with coverage instrumentation (tools/gencov.sh)
        let seed = seed_from_env();
        let mut items = Vec::new();
        for id in ["C01", "C02", "C03", "C04", "C05", "C06", "C07", "C08", "C09", "C10", "C11", "C12", "C13", "C14", "C15", "C16", "C17", "C18"] {
            let plan = props::plan(id, "quick", seed, 0);
            for s in plan.specs {
                let tn = s.type_name();
                let eo = vmodel::emit::enum_opts(&s, &tn);
                let mut derives = s.derives.clone();
                if id == "C16" {
                    // the phf twin
                    let mut s2 = s.clone();
                    s2.groups.push(vec![vmodel::spec::EAttr::UsePhf]);
                    items.push(json!({"name": format!("{}-{}-phf", id, s.name), "derives": derives, "source": vmodel::emit::enum_item(&s2, &eo).replace("vrt::MyErr", "MyErr")}));
                }
                if id == "C03" {
                    derives.push("ToString".into());
                    derives.push("AsStaticStr".into());
                }
                if let Some(o) = &s.disc_opts {
                    let _ = o;
                }
                items.push(json!({"name": format!("{}-{}", id, s.name), "derives": derives, "source": vmodel::emit::enum_item(&s, &eo).replace("vrt::MyErr", "MyErr")}));
            }
        }
        std::fs::write(&args[2], json!({ "items": items }).to_string()).unwrap();
        println!("{} items", items.len());
        return;
    }
    if args.len() < 3 {
        eprintln!("usage: vcheck <ID> quick|thorough | vcheck <ID> --replay <file> | vcheck --warm");
        std::process::exit(2);
    }
    let id = args[1].to_uppercase();
    let seed = seed_from_env();
    if args[2] == "--replay" {
        let path = PathBuf::from(&args[3]);
        let (code, o) = replay_file(&env, &id, &path, seed);
        let findings = load_findings(&env);
        cleanup(&env, &id);
        match code {
            1 => {
                let v = &o.violations[0];
                if let Some(f) = findings.iter().find(|f| matches_finding(f, &id, v)) {
                    println!("KNOWN-FINDING: property={} {}", id, f.description);
                    std::process::exit(0);
                }
                println!("VIOLATION property={} replay={}", id, path.display());
                println!("  kind={} detail={}", v.kind, v.detail);
                std::process::exit(1);
            }
            2 => {
                eprintln!("INCONCLUSIVE property={} reason={:?}", id, o.inconclusive);
                std::process::exit(2);
            }
            _ => {
                println!("OK property={} replay passed", id);
                std::process::exit(0);
            }
        }
    }
    let tier = if args[2] == "quick" || args[2] == "thorough" { args[2].clone() } else { std::env::var("VERIF_TIER").unwrap_or_else(|_| "quick".into()) };
    std::process::exit(run_check(&env, &id, &tier, seed));
}

/// build the shared dependencies of corpus crates once
fn warm(env: &Env) -> i32 {
    let mut code = 0;
    for profile in ["dev", "rel"] {
        let mut cfg = CrateCfg::new(env, "WARM", "main");
        cfg.strum_features = vec!["derive".into(), "phf".into()];
        cfg.profile = profile.into();
        let em = emit_crate(env, &cfg, &[], &BTreeSet::new()).expect("emit");
        let b = cargo_build(env, &cfg, &em, false);
        if !b.success {
            eprintln!("warm build failed ({}):\n{}", profile, b.stderr_tail);
            code = 2;
        }
    }
    let _ = std::fs::remove_dir_all(env.verif.join("work").join("WARM"));
    code
}
