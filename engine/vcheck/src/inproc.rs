//! Engine B front-end: properties decided (partly) by running the macro bodies in-process.

use crate::corpus::Env;
use crate::Outcome;
use serde_json::Value;

pub fn run(_env: &Env, _id: &str, _tier: &str, _seed: u64, _out: &mut Outcome) {}

pub fn replay(_env: &Env, _id: &str, _doc: &Value) -> (i32, Outcome) {
    (0, crate::new_outcome())
}
