//! Engine B front-end (C07 layer 1, C20 layer 2) and the rustc compile-fail layer of C20.

use crate::corpus::*;
use crate::{new_outcome, Outcome, Violation};
use serde_json::{json, Value};
use std::collections::{BTreeMap, BTreeSet};
use std::process::Command;
use std::time::Duration;
use vmodel::emit::{ModuleSrc, Src};
use vmodel::gen::Rg;
use vmodel::malformed;
use vmodel::spec::EnumSpec;

fn build_vinproc(env: &Env) -> Result<std::path::PathBuf, String> {
    // the harness embeds the macro sources of one tree: a tree other than /repo (a scratch worktree with a seeded
    // change) gets a build directory of its own, so that concurrent checks of different trees cannot swap binaries
    let mut target = env.verif.join("engine/target");
    if env.repo != std::path::Path::new("/repo") {
        let mut h = 0xcbf29ce484222325u64;
        for b in env.repo.to_string_lossy().bytes() {
            h = (h ^ b as u64).wrapping_mul(0x100000001b3);
        }
        target = target.join(format!("alt-{:016x}", h));
    }
    let mut cmd = Command::new("cargo");
    cmd.args(["build", "--offline", "--release", "-q", "-p", "vinproc"])
        .current_dir(env.verif.join("engine"))
        .env("REPO_ROOT", &env.repo)
        .env("CARGO_TARGET_DIR", &target)
        .env("CARGO_NET_OFFLINE", "true");
    let (code, _o, e) = run_with_timeout(cmd, Duration::from_secs(600));
    if code != Some(0) {
        return Err(format!("in-process harness does not build against this tree (a *_inner entry point or helper module was renamed?):\n{}", e.lines().rev().take(15).collect::<Vec<_>>().into_iter().rev().collect::<Vec<_>>().join("\n")));
    }
    Ok(target.join("release/vinproc"))
}

/// For programs whose enum definition no longer compiles: did the derives ACCEPT the definition
/// (Ok tokens, i.e. strum generated code that rustc rejects) or REJECT it with their own diagnostic?
/// Returns name -> true when every derive that can run in-process accepted it.
pub fn accepted_by_macros(env: &Env, id: &str, items: &[(String, Vec<String>, String)]) -> BTreeMap<String, bool> {
    let mut res = BTreeMap::new();
    let exe = match build_vinproc(env) {
        Ok(e) => e,
        Err(_) => return res,
    };
    let dir = env.verif.join("work").join(id).join("inproc");
    std::fs::create_dir_all(&dir).unwrap();
    let inp = json!({"items": items.iter().map(|(n, d, s)| json!({"name": n, "derives": d, "source": s})).collect::<Vec<_>>()});
    std::fs::write(dir.join("accepts_in.json"), inp.to_string()).unwrap();
    let mut cmd = Command::new(&exe);
    cmd.arg("accepts").arg(dir.join("accepts_in.json")).arg(dir.join("accepts_out.json"));
    let (code, _o, _e) = run_with_timeout(cmd, Duration::from_secs(120));
    if code != Some(0) {
        return res;
    }
    let out: Value = serde_json::from_str(&std::fs::read_to_string(dir.join("accepts_out.json")).unwrap_or_default()).unwrap_or(Value::Null);
    if let Some(m) = out.as_object() {
        for (name, v) in m {
            let vs: Vec<&str> = v.as_object().map(|o| o.values().filter_map(|x| x.as_str()).collect()).unwrap_or_default();
            let any_ok = vs.iter().any(|x| *x == "ok");
            let all_ok = vs.iter().all(|x| *x == "ok" || *x == "na");
            // only derives that cannot run in-process (FromRepr): undecided here, see `undecided`
            if any_ok || !all_ok {
                res.insert(name.clone(), any_ok && all_ok);
            }
        }
    }
    res
}

fn run_vinproc(env: &Env, id: &str, tier: &str, seed: u64, replay: Option<&Value>, out: &mut Outcome) {
    let exe = match build_vinproc(env) {
        Ok(e) => e,
        Err(m) => {
            out.inconclusive = Some(m);
            return;
        }
    };
    let dir = env.verif.join("work").join(id).join("inproc");
    std::fs::create_dir_all(&dir).unwrap();
    let rep_path = dir.join("report.json");
    let _ = std::fs::remove_file(&rep_path);
    let mut cmd = Command::new(&exe);
    cmd.arg(id.to_lowercase()).arg(tier).arg(seed.to_string()).arg(&rep_path);
    if let Some(r) = replay {
        let rp = dir.join("replay.json");
        std::fs::write(&rp, serde_json::to_string(r).unwrap()).unwrap();
        cmd.arg("--replay").arg(&rp);
    }
    let (code, _o, e) = run_with_timeout(cmd, Duration::from_secs(if tier == "thorough" { 3600 } else { 900 }));
    if code != Some(0) {
        out.inconclusive = Some(format!("in-process engine failed (exit {:?}): {}", code, e.lines().rev().take(5).collect::<Vec<_>>().join(" | ")));
        return;
    }
    let rep: Value = serde_json::from_str(&std::fs::read_to_string(&rep_path).unwrap_or_default()).unwrap_or(Value::Null);
    if rep.is_null() {
        out.inconclusive = Some("in-process engine wrote no report".into());
        return;
    }
    out.agg.evaluations += rep["evaluations"].as_u64().unwrap_or(0);
    out.agg.nontrivial += rep["nontrivial"].as_u64().unwrap_or(0);
    let mut ip = serde_json::Map::new();
    ip.insert("evaluations".into(), rep["evaluations"].clone());
    ip.insert("distinct_nontrivial".into(), rep["nontrivial"].clone());
    ip.insert("classes".into(), rep["classes"].clone());
    ip.insert("exhaustive_subspaces".into(), rep["exhaustive"].clone());
    out.extra.insert("inprocess".into(), Value::Object(ip));
    if let Some(ex) = rep["exhaustive"].as_object() {
        for (k, v) in ex {
            *out.agg.exhaustive.entry(format!("in-process: {}", k)).or_insert(0) += v.as_u64().unwrap_or(0);
        }
    }
    if let Some(s) = rep["samples"].as_array() {
        for x in s.iter().take(4) {
            out.agg.samples.push(x.clone());
        }
    }
    if let Some(fs) = rep["failures"].as_array() {
        for f in fs {
            out.violations.push(Violation {
                kind: format!("inproc:{}", f["kind"].as_str().unwrap_or("?")),
                enum_name: String::new(),
                spec: None,
                detail: json!({"input": f["input"], "expected": f["expected"], "actual": f["actual"]}),
                profile: "dev".into(),
            });
        }
    }
}

pub fn run(env: &Env, id: &str, tier: &str, seed: u64, out: &mut Outcome) {
    match id {
        "C07" => run_vinproc(env, id, tier, seed, None, out),
        "C20" => {
            out.rule = "layer 1 (rustc, `cargo check`): every rejection rule of the statement (30 rule kinds incl. every repeated single-use key) instantiated with generated variations (variant kind, position among valid variants, same attribute / several attributes / interleaved) on every derive that consumes the offending construct, one item per (case, derive) cell, plus sampled non-required derives and valid controls; oracle per required cell: >= 1 error diagnostic attributed to the item and none saying 'proc-macro derive panicked'; per optional cell: no panic; controls: no diagnostic, and a controls-only crate builds cleanly. Layer 2 (in-process, all 16 derives that can run outside rustc): the same grammar at volume plus token-level mutations of valid and invalid items; oracle: never a panic, required cells return Err, controls return tokens that parse as items. Non-trivial = distinct (rule, derive, variation) cells on required derives.".into();
            out.assumptions = vec![
                "a rule is only REQUIRED to reject on derives that consume the construct (DESIGN §6 C20 table); elsewhere only 'no panic' is demanded".into(),
                "'reported at the offending item' is checked at item granularity (diagnostic span inside the item's module)".into(),
                "FromRepr cannot run in-process (uses proc_macro::TokenStream directly); it is covered by layer 1 only".into(),
            ];
            run_vinproc(env, id, tier, seed, None, out);
            if out.inconclusive.is_none() {
                layer1(env, tier, seed, out);
            }
        }
        _ => {}
    }
}

pub fn replay(env: &Env, id: &str, doc: &Value) -> (i32, Outcome) {
    let mut out = new_outcome();
    let kind = doc["kind"].as_str().unwrap_or("").to_string();
    if let Some(k) = kind.strip_prefix("inproc:") {
        let r = json!({"kind": k, "input": doc["detail"]["input"]});
        run_vinproc(env, id, "quick", doc["seed"].as_u64().unwrap_or(0), Some(&r), &mut out);
    } else if kind.starts_with("rustc:") {
        let cell: Cell = serde_json::from_value(doc["detail"]["cell"].clone()).expect("cell");
        check_cells(env, &[cell], &mut out, "replay");
    }
    let code = if out.inconclusive.is_some() {
        2
    } else if !out.violations.is_empty() {
        1
    } else {
        0
    };
    (code, out)
}

// ---------------------------------------------------------------------------------------------
// C20 layer 1: rustc

#[derive(Clone, Debug, serde::Serialize, serde::Deserialize)]
pub struct Cell {
    pub id: String,
    pub case: malformed::Case,
    pub derive: String,
    /// "required" | "optional" | "control"
    pub class: String,
}

fn cell_module(c: &Cell) -> ModuleSrc {
    let mut src = Src::default();
    src.push(&format!("pub mod m_{} {{", c.id.to_lowercase()));
    src.push("use super::*;");
    src.push(&format!("#[derive(strum::{})]", c.derive));
    src.push(&c.case.source.replace("ITEM", "Item"));
    src.push("pub fn run(_: &mut vrt::Ctx) {}");
    src.push("}");
    ModuleSrc { enum_name: c.id.clone(), src }
}

const HELPERS: &str = "pub struct MyErr; pub fn mk_err(_: &str) -> MyErr { MyErr } pub fn f() -> u8 { 0 } pub fn g() -> u8 { 0 }";

fn check_cells(env: &Env, cells: &[Cell], out: &mut Outcome, sub: &str) {
    let items: Vec<Item> = cells.iter().map(|c| Item { spec: EnumSpec::new(&c.id), module: cell_module(c) }).collect();
    let mut cfg = CrateCfg::new(env, "C20", sub);
    cfg.strum_features = vec!["derive".into(), "phf".into()];
    cfg.header = vec!["#![allow(warnings)]".into(), HELPERS.into()];
    let em = emit_crate(env, &cfg, &items, &BTreeSet::new()).expect("emit");
    let b = cargo_build(env, &cfg, &em, true);
    if b.timed_out {
        out.inconclusive = Some("cargo check watchdog".into());
        return;
    }
    if !b.foreign.is_empty() {
        out.inconclusive = Some(format!("diagnostic outside generated items: {}", b.foreign[0].rendered.lines().take(10).collect::<Vec<_>>().join("\n")));
        return;
    }
    let mut by: BTreeMap<String, Vec<&CompileError>> = BTreeMap::new();
    for e in &b.errors {
        by.entry(e.enum_name.clone().unwrap()).or_default().push(e);
    }
    let empty: Vec<&CompileError> = vec![];
    for c in cells {
        let errs = by.get(&c.id).unwrap_or(&empty);
        out.agg.evaluations += 1;
        *out.agg.classes.entry(format!("rustc:{}", c.class)).or_insert(0) += 1;
        let panicked = errs.iter().find(|e| e.message.contains("panicked") || e.rendered.contains("proc-macro derive panicked"));
        let input = json!({"rule": c.case.rule, "variation": c.case.variation, "derive": c.derive, "source": c.case.source});
        let mut v = |kind: String, expected: &str, actual: String| {
            out.violations.push(Violation {
                kind,
                enum_name: String::new(),
                spec: None,
                detail: json!({"input": input, "expected": expected, "actual": actual, "cell": c}),
                profile: "dev".into(),
            });
        };
        if let Some(p) = panicked {
            v(format!("rustc:macro-panic:{}", c.derive), "a compile error, never a macro panic", p.rendered.lines().take(8).collect::<Vec<_>>().join("\n"));
            continue;
        }
        match c.class.as_str() {
            "required" => {
                if errs.is_empty() {
                    v(format!("rustc:silently-accepted:{}:{}", c.case.rule, c.derive), "an error diagnostic at the item", "no diagnostic for this item".into());
                }
            }
            "control" => {
                if let Some(e) = errs.first() {
                    v(format!("rustc:valid-input-rejected:{}", c.derive), "no diagnostic", e.rendered.lines().take(8).collect::<Vec<_>>().join("\n"));
                }
            }
            _ => {}
        }
    }
}

fn layer1(env: &Env, tier: &str, seed: u64, out: &mut Outcome) {
    let thorough = tier == "thorough";
    let rounds = if thorough { 6 } else { 1 };
    let per_rule = if thorough { 16 } else { 12 };
    let mut nontrivial: BTreeSet<u64> = BTreeSet::new();
    for round in 0..rounds {
        let mut rg = Rg::from_seed(vmodel::derive_seed(seed, "c20-layer1", round, 0));
        let mut cells: Vec<Cell> = Vec::new();
        let mut n = 0;
        for rule in malformed::RULES.iter() {
            for _ in 0..per_rule {
                let case = malformed::gen_case(&mut rg, rule);
                for dn in &case.must_reject {
                    n += 1;
                    nontrivial.insert(vmodel::fnv(format!("{}|{}|{}", case.rule, dn, case.variation).as_bytes()));
                    cells.push(Cell { id: format!("K{}x{:05}", round, n), case: case.clone(), derive: dn.clone(), class: "required".into() });
                }
                // two derives that are not required to reject: only "no panic"
                // (FromRepr cannot run in-process, so it is always among them; raw identifiers meet every derive)
                let mut opt: Vec<&str> = vec![*rg.pick(&malformed::ALL_DERIVES), *rg.pick(&malformed::ALL_DERIVES), "FromRepr"];
                if case.variation.starts_with("raw identifiers") {
                    opt = malformed::ALL_DERIVES.to_vec();
                }
                opt.sort();
                opt.dedup();
                for dn in opt {
                    if !case.must_reject.iter().any(|x| x == dn) {
                        n += 1;
                        cells.push(Cell { id: format!("K{}x{:05}", round, n), case: case.clone(), derive: dn.to_string(), class: "optional".into() });
                    }
                }
            }
        }
        for case in malformed::controls() {
            for dn in &case.must_accept {
                n += 1;
                cells.push(Cell { id: format!("K{}x{:05}", round, n), case: case.clone(), derive: dn.clone(), class: "control".into() });
            }
        }
        if round == 0 {
            for c in cells.iter().filter(|c| c.class == "required").step_by(97).take(4) {
                out.agg.samples.push(json!({"layer": "rustc", "rule": c.case.rule, "derive": c.derive, "variation": c.case.variation, "source": c.case.source}));
            }
        }
        out.agg.programs += cells.len() as u64;
        check_cells(env, &cells, out, "l1");
        if out.inconclusive.is_some() || !out.violations.is_empty() {
            break;
        }
        // controls alone must build cleanly (full type check, not only expansion)
        if round == 0 {
            let ctrl: Vec<Cell> = cells.iter().filter(|c| c.class == "control").cloned().collect();
            let items: Vec<Item> = ctrl.iter().map(|c| Item { spec: EnumSpec::new(&c.id), module: cell_module(c) }).collect();
            let mut cfg = CrateCfg::new(env, "C20", "l1ok");
            cfg.strum_features = vec!["derive".into(), "phf".into()];
            cfg.header = vec!["#![allow(warnings)]".into(), HELPERS.into()];
            let em = emit_crate(env, &cfg, &items, &BTreeSet::new()).expect("emit");
            let b = cargo_build(env, &cfg, &em, true);
            out.agg.evaluations += ctrl.len() as u64;
            if !b.success {
                if let Some(e) = b.errors.first() {
                    let c = ctrl.iter().find(|c| Some(&c.id) == e.enum_name.as_ref()).unwrap();
                    out.violations.push(Violation {
                        kind: format!("rustc:valid-input-rejected:{}", c.derive),
                        enum_name: String::new(),
                        spec: None,
                        detail: json!({"input": {"rule": "valid", "derive": c.derive, "source": c.case.source}, "expected": "builds", "actual": e.rendered.lines().take(10).collect::<Vec<_>>().join("\n"), "cell": c}),
                        profile: "dev".into(),
                    });
                } else {
                    out.inconclusive = Some(format!("controls crate failed without attributable error: {}", b.stderr_tail));
                }
            }
        }
    }
    out.agg.nontrivial += nontrivial.len() as u64;
}
