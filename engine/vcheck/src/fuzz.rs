//! Engine C: coverage-guided fuzzing (thorough tiers). Static targets live in engine/fuzz
//! (fz_macro for C20, fz_case for C07); for C01 / C05 / C12 / C16 / C18 a target holding freshly
//! generated enums is emitted per run. The semantic oracle is inside every target; a failing input
//! is turned into an ordinary replay file (spec + input) and, for generated targets, re-checked
//! through the normal replay path.

use crate::corpus::*;
use crate::{props, Outcome, Violation};
use serde_json::{json, Value};
use std::process::Command;
use std::time::Duration;
use vmodel::emit::ModOpts;
use vmodel::spec::EnumSpec;

pub fn seconds(id: &str) -> u64 {
    std::env::var("VERIF_FUZZ_SECS").ok().and_then(|s| s.parse().ok()).unwrap_or(match id {
        "C20" => 240,
        _ => 150,
    })
}

fn nightly_available() -> bool {
    Command::new("cargo").args(["+nightly", "fuzz", "--version"]).output().map(|o| o.status.success()).unwrap_or(false)
}

struct FuzzRun {
    execs: u64,
    cov: u64,
    corpus: u64,
    violation: Option<Value>,
    raw_crash: Option<String>,
    error: Option<String>,
}

fn parse_output(stderr: &str, marker: &str) -> FuzzRun {
    let mut r = FuzzRun { execs: 0, cov: 0, corpus: 0, violation: None, raw_crash: None, error: None };
    for l in stderr.lines() {
        if let Some(i) = l.find(marker) {
            let js = l[i + marker.len()..].trim();
            r.violation = serde_json::from_str(js).ok().or_else(|| Some(json!({"kind": "fuzz:unparsed", "message": js})));
        }
        if let Some(x) = l.strip_prefix("stat::number_of_executed_units:") {
            r.execs = x.trim().parse().unwrap_or(0);
        }
        if l.starts_with('#') && l.contains(" cov: ") {
            let grab = |k: &str| -> u64 { l.split(k).nth(1).and_then(|t| t.trim().split(' ').next()).and_then(|t| t.parse().ok()).unwrap_or(0) };
            r.cov = grab(" cov: ");
            r.corpus = l.split(" corp: ").nth(1).and_then(|t| t.split('/').next()).and_then(|t| t.trim().parse().ok()).unwrap_or(0);
            if r.execs == 0 {
                r.execs = l[1..].split_whitespace().next().and_then(|t| t.parse().ok()).unwrap_or(0);
            }
        }
        if l.contains("ERROR: libFuzzer") || l.contains("panicked at") {
            if r.raw_crash.is_none() {
                r.raw_crash = Some(l.to_string());
            }
        }
    }
    r
}

fn run_cargo_fuzz(env: &Env, cwd: &std::path::Path, fuzz_dir: &std::path::Path, target: &str, corpus: &std::path::Path, secs: u64, seed: u64, extra: &[String]) -> Result<String, String> {
    let tdir = env.verif.join("target/fuzz");
    let mut build = Command::new("cargo");
    build
        .args(["+nightly", "fuzz", "build", "-s", "none", "--fuzz-dir"])
        .arg(fuzz_dir)
        .arg(target)
        .current_dir(cwd)
        .env("CARGO_TARGET_DIR", &tdir)
        .env("REPO_ROOT", &env.repo)
        .env("CARGO_NET_OFFLINE", "true");
    let (code, _o, e) = run_with_timeout(build, Duration::from_secs(1200));
    if code != Some(0) {
        return Err(format!("cargo fuzz build failed: {}", e.lines().rev().take(12).collect::<Vec<_>>().into_iter().rev().collect::<Vec<_>>().join("\n")));
    }
    let mut run = Command::new("cargo");
    run.args(["+nightly", "fuzz", "run", "-s", "none", "--fuzz-dir"])
        .arg(fuzz_dir)
        .arg(target)
        .arg(corpus)
        .arg("--")
        .arg(format!("-max_total_time={}", secs))
        .arg(format!("-seed={}", (seed % 0xffff_fff0) + 1))
        .arg("-len_control=0")
        .arg("-print_final_stats=1")
        .arg(format!("-artifact_prefix={}/", corpus.parent().unwrap().join("artifacts").display()))
        .args(extra)
        .current_dir(cwd)
        .env("CARGO_TARGET_DIR", &tdir)
        .env("REPO_ROOT", &env.repo)
        .env("CARGO_NET_OFFLINE", "true");
    std::fs::create_dir_all(corpus.parent().unwrap().join("artifacts")).ok();
    let (code, _o, e) = run_with_timeout(run, Duration::from_secs(secs + 120));
    if code.is_none() {
        return Err("fuzz run watchdog".into());
    }
    Ok(e)
}

fn record(out: &mut Outcome, name: &str, r: &FuzzRun, secs: u64) {
    out.agg.evaluations += r.execs;
    out.extra.insert(
        "fuzz".into(),
        json!({"target": name, "engine": "libFuzzer (cargo-fuzz, -s none)", "seconds": secs, "executions": r.execs, "coverage_edges": r.cov, "corpus_size": r.corpus,
               "note": "a libFuzzer campaign is only approximately reproducible from its seed; a failing input is saved as a replay file"}),
    );
    *out.agg.classes.entry("libfuzzer-executions".into()).or_insert(0) += r.execs;
}

/// fz_macro (C20) / fz_case (C07) from engine/fuzz
pub fn run_static(env: &Env, id: &str, target: &str, seed: u64, out: &mut Outcome) {
    if !nightly_available() {
        out.extra.insert("fuzz".into(), json!({"skipped": "cargo +nightly fuzz not available"}));
        return;
    }
    let secs = seconds(id);
    let work = env.verif.join("work").join(id).join("fz");
    let corpus = work.join("corpus");
    let _ = std::fs::remove_dir_all(&work);
    std::fs::create_dir_all(&corpus).unwrap();
    // a few valid seeds
    for (i, s) in [&b"\x00\x01\x02\x03\x04\x05"[..], &b"\x03\x07pub enum A { #[strum(props(a = 1.5))] B }"[..], &b"\x02\x00HelloWorld2"[..]].iter().enumerate() {
        std::fs::write(corpus.join(format!("seed{}", i)), s).unwrap();
    }
    let engine = env.verif.join("engine");
    let max_len = if target == "fz_case" { "-max_len=40" } else { "-max_len=300" };
    match run_cargo_fuzz(env, &engine, &engine.join("fuzz"), target, &corpus, secs, seed, &[max_len.to_string()]) {
        Err(m) => out.inconclusive = Some(m),
        Ok(stderr) => {
            let r = parse_output(&stderr, &format!("{}-VIOLATION", id));
            record(out, target, &r, secs);
            if let Some(v) = &r.violation {
                out.violations.push(Violation { kind: format!("fuzz:{}", v["kind"].as_str().unwrap_or(target)), enum_name: String::new(), spec: None, detail: v.clone(), profile: "dev".into() });
            } else if let Some(c) = &r.raw_crash {
                out.violations.push(Violation { kind: format!("fuzz:crash:{}", target), enum_name: String::new(), spec: None, detail: json!({"message": c}), profile: "dev".into() });
            }
        }
    }
}

/// a target generated for this run: C01 / C12 / C18 (parse), C16 (twin), C05 (iterator histories)
pub fn run_generated(env: &Env, id: &str, seed: u64, out: &mut Outcome) {
    if !nightly_available() {
        out.extra.insert("fuzz".into(), json!({"skipped": "cargo +nightly fuzz not available"}));
        return;
    }
    let secs = seconds(id);
    let plan = props::plan(id, "quick", seed ^ 0xf022, 0);
    let n = if id == "C05" { 27 } else { 48 };
    let specs: Vec<EnumSpec> = plan.specs.into_iter().take(n).collect();
    let (run_fn, fuzz_fn, twin) = match id {
        "C05" => ("vrt::iterfam::c05", "vrt::iterfam::fuzz_iter", None),
        "C16" => ("vrt::strfam::c16", "vrt::strfam::fuzz_parse_twin", Some(vmodel::emit::Twin::Phf)),
        "C12" => ("vrt::strfam::c12", "vrt::strfam::fuzz_parse", None),
        "C18" => ("vrt::strfam::c18", "vrt::strfam::fuzz_parse", None),
        _ => ("vrt::strfam::c01", "vrt::strfam::fuzz_parse", None),
    };
    let work = env.verif.join("work").join(id).join("fz");
    let _ = std::fs::remove_dir_all(&work);
    let fz = work.join("fuzz");
    std::fs::create_dir_all(fz.join("fuzz_targets")).unwrap();
    std::fs::create_dir_all(work.join("src")).unwrap();
    std::fs::write(work.join("Cargo.toml"), "[package]\nname = \"fzroot\"\nversion = \"0.0.0\"\nedition = \"2021\"\n[workspace]\nexclude = [\"fuzz\"]\n").unwrap();
    std::fs::write(work.join("src/lib.rs"), "").unwrap();
    std::fs::write(
        fz.join("Cargo.toml"),
        format!(
            "[package]\nname = \"fzgen\"\nversion = \"0.0.0\"\nedition = \"2021\"\npublish = false\n[package.metadata]\ncargo-fuzz = true\n[dependencies]\nlibfuzzer-sys = \"0.4\"\nserde_json = \"1\"\nvrt = {{ path = \"{}\" }}\nstrum = {{ path = \"{}\", features = [\"derive\", \"phf\"] }}\n[[bin]]\nname = \"fz_gen\"\npath = \"fuzz_targets/fz_gen.rs\"\ntest = false\ndoc = false\nbench = false\n[workspace]\n",
            env.verif.join("engine/vrt").display(),
            env.repo.join("strum").display()
        ),
    )
    .unwrap();
    std::fs::copy(env.verif.join("engine/fuzz/Cargo.lock"), fz.join("Cargo.lock")).ok();
    let mut src = String::from("#![no_main]\n#![allow(warnings)]\nuse libfuzzer_sys::fuzz_target;\n");
    let mut table = Vec::new();
    for s in &specs {
        let m = if id == "C05" {
            vmodel::emit::module_iter(s, &ModOpts { property: id, run_fn, twin: None, fuzz_fn: Some(fuzz_fn) })
        } else {
            vmodel::emit::module_string(s, &ModOpts { property: id, run_fn, twin, fuzz_fn: Some(fuzz_fn) })
        };
        src.push_str(&m.src.text);
        table.push(format!("m_{}::fz as vrt::FzFn", s.name.to_lowercase()));
    }
    src.push_str(&format!(
        r#"
static TABLE: &[vrt::FzFn] = &[{}];
fn specs() -> &'static Vec<(vrt::vmodel::spec::EnumSpec, vrt::inputs::PM)> {{
    static S: std::sync::OnceLock<Vec<(vrt::vmodel::spec::EnumSpec, vrt::inputs::PM)>> = std::sync::OnceLock::new();
    S.get_or_init(|| {{
        std::panic::set_hook(Box::new(|_| {{}}));
        let v: Vec<vrt::vmodel::spec::EnumSpec> = serde_json::from_str(include_str!("../specs.json")).unwrap();
        v.into_iter().map(|s| {{ let pm = vrt::inputs::PM::new(&s); (s, pm) }}).collect()
    }})
}}
fuzz_target!(|data: &[u8]| {{
    if data.len() < 1 {{ return; }}
    let sp = specs();
    let k = data[0] as usize % sp.len();
    let mut a = vrt::FzArg {{ spec: &sp[k].0, pm: &sp[k].1, data: &data[1..], out: None }};
    TABLE[k](&mut a);
    if let Some(mut v) = a.out {{
        v["enum"] = serde_json::json!(sp[k].0.name);
        eprintln!("{}-VIOLATION {{}}", v);
        std::process::abort();
    }}
}});
"#,
        table.join(", "),
        id
    ));
    std::fs::write(fz.join("fuzz_targets/fz_gen.rs"), src).unwrap();
    std::fs::write(fz.join("specs.json"), serde_json::to_string(&specs).unwrap()).unwrap();
    // corpus seeds + dictionary: declared spellings
    let corpus = work.join("corpus");
    std::fs::create_dir_all(&corpus).unwrap();
    let mut dict = String::new();
    let mut nseed = 0;
    for (k, s) in specs.iter().enumerate() {
        for v in &s.variants {
            for sp in vmodel::model::spellings(s, v) {
                if nseed < 400 {
                    let mut b = vec![k as u8];
                    b.extend_from_slice(sp.as_bytes());
                    std::fs::write(corpus.join(format!("s{}", nseed)), b).unwrap();
                    nseed += 1;
                }
                let esc: String = sp.bytes().map(|c| if c.is_ascii_alphanumeric() { (c as char).to_string() } else { format!("\\x{:02x}", c) }).collect();
                if !esc.is_empty() && esc.len() < 120 {
                    dict.push_str(&format!("\"{}\"\n", esc));
                }
            }
        }
    }
    std::fs::write(work.join("dict.txt"), dict).unwrap();
    let mut extra = vec!["-max_len=64".to_string(), "-use_value_profile=1".to_string()];
    if id != "C05" {
        extra.push(format!("-dict={}", work.join("dict.txt").display()));
    }
    match run_cargo_fuzz(env, &work, &fz, "fz_gen", &corpus, secs, seed, &extra) {
        Err(m) => out.inconclusive = Some(m),
        Ok(stderr) => {
            let r = parse_output(&stderr, &format!("{}-VIOLATION", id));
            record(out, "fz_gen (generated enums)", &r, secs);
            if let Some(v) = &r.violation {
                let en = v["enum"].as_str().unwrap_or("").to_string();
                let spec = specs.iter().find(|s| s.name == en).cloned();
                out.violations.push(Violation {
                    kind: v["kind"].as_str().unwrap_or("fuzz").to_string(),
                    enum_name: en,
                    spec,
                    detail: json!({"input": v["input"], "expected": v["expected"], "actual": v["actual"], "found_by": "libFuzzer"}),
                    profile: "dev".into(),
                });
            } else if let Some(c) = &r.raw_crash {
                out.violations.push(Violation { kind: "fuzz:crash".into(), enum_name: String::new(), spec: None, detail: json!({"message": c}), profile: "dev".into() });
            }
        }
    }
}
