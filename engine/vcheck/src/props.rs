//! Per-property plans: which corpus to generate, which checker runs, budgets per tier.

use crate::corpus::Policy;
use std::collections::BTreeMap;
use vmodel::emit::{self, ModOpts, ModuleSrc};
use vmodel::gen::{self, GenCfg, Rg};
use vmodel::spec::*;

pub struct Plan {
    pub specs: Vec<EnumSpec>,
    pub params: BTreeMap<String, u64>,
    pub strum_features: Vec<String>,
    /// "dev" and/or "rel"
    pub profiles: Vec<&'static str>,
    pub policy: Policy,
    pub rule: String,
    pub assumptions: Vec<String>,
}

pub fn rounds(id: &str, tier: &str) -> u64 {
    let _ = id;
    if tier == "thorough" {
        8
    } else {
        1
    }
}

fn params(pairs: &[(&str, u64)]) -> BTreeMap<String, u64> {
    pairs.iter().map(|(k, v)| (k.to_string(), *v)).collect()
}

fn name_specs(specs: &mut Vec<EnumSpec>, round: u64) {
    for (i, s) in specs.iter_mut().enumerate() {
        s.name = format!("En{}x{:04}", round, i);
        // three quarters of the programs share the type name `En` (each in its own module)
        s.rust_name = if i % 4 == 0 { String::new() } else { "En".to_string() };
    }
}

fn derives(d: &[&str]) -> Vec<String> {
    d.iter().map(|s| s.to_string()).collect()
}

pub fn string_cfg(id: &str) -> GenCfg {
    let mut c = GenCfg {
        property: id.to_string(),
        max_variants: 8,
        derives: derives(&["EnumString"]),
        allow_default: true,
        allow_transparent: false,
        allow_prefix: false,
        allow_fields: true,
        allow_placeholders: false,
        allow_generics: true,
        allow_disabled: true,
        allow_ci: true,
        allow_default_with: true,
        parse_err: Some(false),
        force_style: None,
        plain_literals: false,
        const_into_str: false,
        min_variants: 0,
        phf: false,
        ci_heavy: false,
        idents: vec![],
        sync_only: false,
        dup_names: false,
        mixed_case_overlap: false,
    };
    match id {
        // a prefix is a print-side feature; the parser must ignore it (inputs include prefix + spelling)
        "C01" | "C11" | "C12" | "C16" | "C18" => c.allow_prefix = true,
        _ => {}
    }
    let _ = &mut c;
    c
}

/// the module emitter for a property
pub fn module_for(id: &str, spec: &EnumSpec) -> ModuleSrc {
    match id {
        "C01" => emit::module_string(spec, &ModOpts { property: id, run_fn: "vrt::strfam::c01", twin: None, fuzz_fn: None }),
        "C02" => emit::module_string(spec, &ModOpts { property: id, run_fn: "vrt::strfam::c02", twin: None, fuzz_fn: None }),
        "C03" => emit::module_string(spec, &ModOpts { property: id, run_fn: "vrt::strfam::c03", twin: Some(emit::Twin::Deprecated), fuzz_fn: None }),
        "C07" => emit::module_string(spec, &ModOpts { property: id, run_fn: "vrt::strfam::c07", twin: None, fuzz_fn: None }),
        "C11" => emit::module_string(spec, &ModOpts { property: id, run_fn: "vrt::strfam::c11", twin: None, fuzz_fn: None }),
        "C12" => emit::module_string(spec, &ModOpts { property: id, run_fn: "vrt::strfam::c12", twin: None, fuzz_fn: None }),
        "C16" => emit::module_string(spec, &ModOpts { property: id, run_fn: "vrt::strfam::c16", twin: Some(emit::Twin::Phf), fuzz_fn: None }),
        "C17" => emit::module_string(spec, &ModOpts { property: id, run_fn: "vrt::strfam::c17", twin: None, fuzz_fn: None }),
        "C18" => emit::module_string(spec, &ModOpts { property: id, run_fn: "vrt::strfam::c18", twin: None, fuzz_fn: None }),
        "C04" => emit::module_iter(spec, &ModOpts { property: id, run_fn: "vrt::iterfam::c04", twin: None, fuzz_fn: None }),
        "C05" => emit::module_iter(spec, &ModOpts { property: id, run_fn: "vrt::iterfam::c05", twin: None, fuzz_fn: None }),
        "C08" => emit::module_iter(spec, &ModOpts { property: id, run_fn: "vrt::iterfam::c08", twin: None, fuzz_fn: None }),
        "C06" => emit::module_repr(spec, &ModOpts { property: id, run_fn: "vrt::reprfam::c06", twin: None, fuzz_fn: None }),
        "C13" => emit::module_shape(spec, &ModOpts { property: id, run_fn: "vrt::shapefam::c13", twin: None, fuzz_fn: None }),
        "C14" => emit::module_string(spec, &ModOpts { property: id, run_fn: "vrt::metafam::c14", twin: None, fuzz_fn: None }),
        "C15" => emit::module_string(spec, &ModOpts { property: id, run_fn: "vrt::metafam::c15", twin: None, fuzz_fn: None }),
        "C10" => emit::module_table(spec, &ModOpts { property: id, run_fn: "vrt::tablefam::c10", twin: None, fuzz_fn: None }),
        "C09" => emit::module_disc(spec, &ModOpts { property: id, run_fn: "vrt::discfam::c09", twin: None, fuzz_fn: None }),
        _ => panic!("no module emitter for {}", id),
    }
}

/// every fifth program of a corpus is rewritten into its *plain* form (documented constructs, ordinary spelling)
/// where that is possible: for those a rejection by the derive itself is a violation too (see vmodel::plain)
pub fn plan(id: &str, tier: &str, seed: u64, round: u64) -> Plan {
    let mut p = plan_inner(id, tier, seed, round);
    if !matches!(id, "C07") {
        for (i, s) in p.specs.iter_mut().enumerate() {
            // (two fifths where identifiers and literals are not what the property is about)
            let more = matches!(id, "C04" | "C05" | "C06" | "C08" | "C09" | "C10" | "C13" | "C14" | "C15");
            if i % 5 == 2 || (more && i % 5 == 4) {
                gen::plainify(s);
            }
        }
    }
    p
}

fn plan_inner(id: &str, tier: &str, seed: u64, round: u64) -> Plan {
    let thorough = tier == "thorough";
    let mut rg = Rg::from_seed(vmodel::derive_seed(seed, id, round, 0x9e37));
    match id {
        "C01" => {
            let n = if thorough { 640 } else { 384 };
            let cfg = string_cfg(id);
            let mut specs: Vec<EnumSpec> = (0..n)
                .map(|i| {
                    let mut c = cfg.clone();
                    // a quarter of the corpus uses the custom error, without default variants
                    if i % 4 == 3 {
                        c.parse_err = Some(true);
                        c.allow_default = i % 8 == 7;
                    }
                    // a few large enums
                    if i % 64 == 5 {
                        c.min_variants = 40;
                        c.max_variants = 60;
                    }
                    // print-side attributes must not disturb the parser
                    c.allow_transparent = i % 4 == 1;
                    // a case-sensitive / case-insensitive pair differing only in case (inputs matching both are skipped)
                    c.mixed_case_overlap = i % 8 == 2;
                    gen::gen_string(&mut rg, &c)
                })
                .collect();
            name_specs(&mut specs, round);
            Plan {
                specs,
                params: params(&[("cases", if thorough { 6000 } else { 1500 }), ("max_flip_letters", if thorough { 12 } else { 9 })]),
                strum_features: vec!["derive".into()],
                profiles: vec!["dev", "rel"],
                policy: Policy::TaggedOnly,
                rule: "programs: EnumString enums generated from pools (0..8 variants, all kinds, generics, every naming / disabled / default / default_with / ascii_case_insensitive combination, non-overlapping spellings by construction); inputs: every declared spelling, every identifier conversion, all 2^k case flips (k <= max_flip_letters), look-alike substitutions, then proptest-generated flips / one-edit neighbours / random strings. Oracle: independent reference model `parse`; from_str and try_from must agree with it and with each other on variant, payload and error. Non-trivial = enum has >= 2 enabled variants and the input is a spelling, flip, edit, derived name or look-alike; distinct by (program, input).".into(),
                assumptions: vec![
                    "glue (index match, payload rendering) emitted by the harness is trusted".into(),
                    "spellings of distinct variants do not overlap (guaranteed by the generator's repair step)".into(),
                ],
            }
        }
        "C02" => {
            let n = if thorough { 640 } else { 384 };
            let mut cfg = string_cfg(id);
            cfg.derives = derives(&["EnumString", "Display", "AsRefStr", "IntoStaticStr", "EnumMessage"]);
            cfg.allow_transparent = true;
            // EnumMessage / const_into_str match on `&self`, which rustc rejects for a zero-variant enum
            cfg.min_variants = 1;
            let mut specs: Vec<EnumSpec> = (0..n)
                .map(|i| {
                    let mut c = cfg.clone();
                    // every accepted style string appears regularly
                    c.force_style = if i % 5 == 4 { None } else { Some(vmodel::model::STYLES[i % 16].to_string()) };
                    c.const_into_str = i % 3 == 0;
                    if c.const_into_str {
                        c.allow_transparent = false;
                    }
                    // some programs parse through the phf map (field-less, Clone)
                    if i % 7 == 3 {
                        c.idents = vec!["r#type".to_string(), "r#match".to_string()];
                    }
                    if i % 6 == 1 {
                        // the phf map is a static: its values must be const-constructible, i.e. field-less
                        c.allow_fields = false;
                        c.allow_transparent = false;
                        c.allow_generics = false;
                        c.sync_only = true;
                        c.phf = true;
                    }
                    gen::gen_string(&mut rg, &c)
                })
                .collect();
            name_specs(&mut specs, round);
            Plan {
                specs,
                params: params(&[("draws", if thorough { 16 } else { 6 })]),
                strum_features: vec!["derive".into(), "phf".into()],
                profiles: vec!["dev", "rel"],
                policy: Policy::TaggedOnly,
                rule: "programs: prefix-less enums deriving EnumString + Display + AsRefStr + IntoStaticStr + EnumMessage, all 16 accepted serialize_all strings (each forced regularly) or none, every mix of serialize/to_string, all kinds, generics, const_into_str; every enabled non-default non-transparent variant is built with generated payloads, printed by every printer (Display, as_ref, From<E>, From<&E>, into_str) and parsed back: same variant, payload reset to defaults; every get_serializations() string parses back. Non-trivial = printed name differs from the identifier; distinct by (program, variant, printer) and (program, variant, serialization).".into(),
                assumptions: vec!["parse-side payload expectation as in C01".into()],
            }
        }
        "C03" => {
            let n = if thorough { 640 } else { 384 };
            let mut cfg = string_cfg(id);
            cfg.derives = derives(&["Display", "AsRefStr", "IntoStaticStr", "VariantNames"]);
            cfg.allow_default = false;
            cfg.allow_transparent = true;
            cfg.allow_prefix = true;
            cfg.allow_ci = false;
            cfg.allow_default_with = false;
            cfg.const_into_str = true;
            cfg.min_variants = 1;
            cfg.dup_names = true;
            let mut specs: Vec<EnumSpec> = (0..n)
                .map(|i| {
                    let mut c = cfg.clone();
                    c.force_style = if i % 5 == 4 { None } else { Some(vmodel::model::STYLES[i % 16].to_string()) };
                    // every style regularly meets identifiers that start with a non-ASCII upper-case letter
                    if (i / 16) % 3 == 1 {
                        c.idents = ["Éclair", "Ünï", "Ñandú", "Öl2"].iter().map(|s| s.to_string()).collect();
                    }
                    // field-less enums regularly (they may carry explicit discriminants in any order)
                    if i % 6 == 3 {
                        c.allow_fields = false;
                        c.allow_transparent = false;
                    }
                    gen::gen_string(&mut rg, &c)
                })
                .collect();
            name_specs(&mut specs, round);
            Plan {
                specs,
                params: params(&[]),
                strum_features: vec!["derive".into()],
                profiles: vec!["dev", "rel"],
                policy: Policy::TaggedOnly,
                rule: "programs: twin enums from one spec (Display+AsRefStr+IntoStaticStr+VariantNames / deprecated ToString+AsStaticStr), {no attr, to_string, 1..3 serialize of distinct lengths in every order, both} x prefix (incl. empty, non-ASCII) x 16 styles x const_into_str on/off x all kinds x generics; every sixth program field-less, a third of those with explicit discriminants in shuffled order; identifiers with a non-ASCII upper-case initial first under every style. Oracle: model canonical name; up to eight observations per variant (format!, ToString derive, as_ref, as_static, From<E>, From<&E>, into_str, const-evaluated into_str) plus VariantNames::VARIANTS at every declaration index. Non-trivial = longest serialize literal not last, or a prefix, or a style that changes the identifier; distinct by (program, variant, derive).".into(),
                assumptions: vec!["longest serialize literal is unique (generator); statement silent on ties".into()],
            }
        }
        "C07" => {
            // layer 2 (compiled): dictionary x styles x all name-printing / parsing derives
            let mut dict: Vec<String> = vmodel::pools::IDENTS.iter().chain(vmodel::pools::C07_DICT.iter()).map(|s| s.to_string()).collect();
            let mut specs = Vec::new();
            let reps = if thorough { 3 } else { 1 };
            for _ in 0..reps {
                for st in 0..17usize {
                    rg.shuffle(&mut dict);
                    for chunk in dict.chunks(8) {
                        let mut c = string_cfg(id);
                        c.derives = derives(&["VariantNames", "Display", "AsRefStr", "IntoStaticStr", "EnumString", "EnumMessage"]);
                        c.force_style = if st == 16 { Some("__none__".into()) } else { Some(vmodel::model::STYLES[st].to_string()) };
                        c.allow_default = false;
                        c.allow_disabled = false;
                        c.allow_generics = false;
                        c.allow_ci = true;
                        c.allow_prefix = true;
                        c.idents = chunk.to_vec();
                        c.min_variants = chunk.len();
                        c.max_variants = chunk.len();
                        specs.push(gen::gen_string(&mut rg, &c));
                    }
                }
            }
            name_specs(&mut specs, round);
            Plan {
                specs,
                params: params(&[]),
                strum_features: vec!["derive".into()],
                profiles: vec!["dev", "rel"],
                policy: Policy::TaggedOnly,
                rule: "layer 2 (compiled): a dictionary of ~145 realistic identifiers (PascalCase, acronyms, digits, underscores, non-ASCII) x the 16 accepted serialize_all strings and none x the derives VariantNames, Display, AsRefStr, IntoStaticStr, EnumString, EnumMessage::get_serializations: all printers return the independent word-scanner model's conversion, from_str accepts it, get_serializations is exactly it, and variants with serialize/to_string are never re-cased (their cased identifier is rejected). Layer 1 (in-process, exhaustive identifiers) is reported under `inprocess`. Non-trivial = identifier with >= 2 words, an uppercase run or a digit; distinct by (identifier, style, derive).".into(),
                assumptions: vec!["A1: caseless characters (digits) inherit the class of the preceding character; heck is what strum documents it uses".into(), "the property text counts 17 accepted style strings; strum's parser accepts 16 distinct strings, all are covered".into()],
            }
        }
        "C11" => {
            let n = if thorough { 448 } else { 256 };
            let sets: [&[&str]; 5] = [
                &["EnumString", "Display"],
                &["EnumString", "Display", "AsRefStr", "IntoStaticStr"],
                &["Display"],
                &["Display", "AsRefStr"],
                &["EnumString", "Display", "AsRefStr"],
            ];
            let mut specs = Vec::new();
            let mut i = 0;
            while specs.len() < n {
                i += 1;
                let mut c = string_cfg(id);
                c.derives = derives(sets[i % 5]);
                c.allow_transparent = true;
                c.allow_default = c.derives.iter().any(|d| d == "EnumString");
                // a declared custom error must not disturb the catch-all
                c.parse_err = Some(c.allow_default && i % 4 == 0);
                // some catch-alls sit behind the phf map (field-less apart from the default variant)
                if c.allow_default && i % 7 == 2 {
                    c.allow_fields = false;
                    c.allow_transparent = false;
                    c.allow_generics = false;
                    c.sync_only = true;
                    c.ci_heavy = i % 2 == 0;
                    c.phf = true;
                }
                let s = gen::gen_string(&mut rg, &c);
                if s.variants.iter().any(|v| !v.disabled() && (v.is_default() || v.transparent())) {
                    specs.push(s);
                }
            }
            name_specs(&mut specs, round);
            Plan {
                specs,
                params: params(&[("cases", if thorough { 5000 } else { 1000 }), ("max_flip_letters", if thorough { 10 } else { 6 }), ("draws", if thorough { 8 } else { 3 })]),
                strum_features: vec!["derive".into(), "phf".into()],
                profiles: vec!["dev", "rel"],
                policy: Policy::TaggedOnly,
                rule: "programs: enums with a default variant (tuple or single named field; inner String, Box<str>, Rc<str>, Arc<str>, a From<&str> wrapper) and/or transparent variants (inner String, &'static str, integers, a nested enum, a Spy type printing the formatter state), derive sets chosen so that the inner type satisfies them; a seventh of the EnumString programs parse through the phf map (non-default variants field-less). Oracle: every input with no model match is captured verbatim (byte for byte) and from_str(s)?.to_string() == s; for transparent variants and default variants without to_string the whole 3740-cell format grid, as_ref and From<..> for &'static str equal what the inner field gives. Non-trivial = captured input within one edit / case flip / look-alike of a spelling or containing whitespace / non-ASCII; grid cell that pads or truncates.".into(),
                assumptions: vec!["the inner field is located by a hand-written match emitted by the harness".into()],
            }
        }
        "C12" => {
            let n = if thorough { 512 } else { 320 };
            let mut cfg = string_cfg(id);
            cfg.ci_heavy = true;
            cfg.allow_default_with = false;
            let mut specs: Vec<EnumSpec> = (0..n)
                .map(|i| {
                    let mut c = cfg.clone();
                    // (the phf map tries exact keys before any folded comparison: no deliberate overlap there)
                    c.mixed_case_overlap = i % 4 != 1;
                    // a quarter of the programs are field-less Clone enums parsed through the phf map
                    if i % 4 == 1 {
                        c.allow_fields = false;
                        c.allow_generics = false;
                        c.sync_only = true;
                        c.phf = true;
                    }
                    gen::gen_string(&mut rg, &c)
                })
                .collect();
            name_specs(&mut specs, round);
            Plan {
                specs,
                params: params(&[("cases", if thorough { 5000 } else { 800 }), ("max_flip_letters", if thorough { 12 } else { 10 })]),
                strum_features: vec!["derive".into(), "phf".into()],
                profiles: vec!["dev", "rel"],
                policy: Policy::TaggedOnly,
                rule: "programs: EnumString enums x enum-level ascii_case_insensitive on/off x variant flag absent / bare / = true / = false, spellings mixing ASCII and non-ASCII letters (ü/Ü, ß/ẞ, İ, Kelvin sign, long s, dotless i). Inputs: ALL 2^k case flips of each spelling (k <= max_flip_letters), every single look-alike substitution and every case flip of a non-ASCII letter, the same against case-sensitive variants, plus generated inputs. Oracle: reference parser folding only A-Z/a-z byte-wise. Non-trivial = non-identity flip, look-alike, edit or derived name on an enum with >= 2 enabled variants; distinct by (program, input).".into(),
                assumptions: vec!["as C01".into()],
            }
        }
        "C16" => {
            let n = if thorough { 512 } else { 320 };
            let mut cfg = string_cfg(id);
            cfg.allow_fields = false;
            cfg.allow_generics = true; // field-less: only an unused const parameter can appear
            cfg.ci_heavy = true;
            cfg.sync_only = true;
            cfg.allow_default_with = false;
            let mut specs: Vec<EnumSpec> = (0..n).map(|_| gen::gen_string(&mut rg, &cfg)).collect();
            name_specs(&mut specs, round);
            // type names that collide with what a map-backed implementation might import
            for (i, s) in specs.iter_mut().enumerate() {
                if i % 16 == 6 {
                    s.rust_name = ["Map", "PHF", "Entry", "OrderedMap"][(i / 16) % 4].to_string();
                }
            }
            Plan {
                specs,
                params: params(&[("cases", if thorough { 5000 } else { 800 }), ("max_flip_letters", if thorough { 10 } else { 8 })]),
                strum_features: vec!["derive".into(), "phf".into()],
                profiles: vec!["dev", "rel"],
                policy: Policy::TaggedOnly,
                rule: "programs: field-less Clone enums of C01's domain (optionally one default variant), each emitted twice from one spec: plain and with #[strum(use_phf)] (strum feature phf on); spellings mixed-case, all-lower, all-upper, caseless (digits, punctuation, non-ASCII), case-insensitivity at enum and variant level. Oracle: differential (identical PObs from both twins for every input) + the reference model as third voice; the phf twin must compile whenever the plain twin does (errors confined to the twin's tagged range are violations). Inputs as C01/C12. Non-trivial as C01.".into(),
                assumptions: vec!["as C01".into()],
            }
        }
        "C17" => {
            let n = if thorough { 512 } else { 320 };
            let mut cfg = string_cfg(id);
            cfg.derives = derives(&["Display"]);
            cfg.allow_default = true;
            cfg.allow_prefix = true;
            cfg.allow_placeholders = true;
            cfg.allow_ci = false;
            cfg.allow_default_with = false;
            let mut specs: Vec<EnumSpec> = (0..n).map(|i| if i % 10 == 9 { gen::gen_prefix_placeholder(&mut rg) } else { gen::gen_string(&mut rg, &cfg) }).collect();
            name_specs(&mut specs, round);
            Plan {
                specs,
                params: params(&[("payload_draws", if thorough { 256 } else { 48 })]),
                strum_features: vec!["derive".into()],
                profiles: vec!["dev", "rel"],
                policy: Policy::TaggedOnly,
                rule: "programs: Display enums x all kinds x naming attributes x prefix x styles; fixed names (incl. multi-byte): the 22 fill/align/flag literals x width 0..16 x precision none/0..8 = 3740 renderings per variant must equal the same renderings of the canonical &str. Placeholder literals generated from pieces (text, {{ }}, {name[:spec]}/{index[:spec]} over every subset and order of named fields, every order of all tuple indices, specs >4 <6 ^5 03 + ? #x .2 e ...): the expected string is produced by std's format! on the IDENTICAL literal with the same payload (emitted by the harness next to the enum), payloads incl. extremes. A tenth of the literals is one bare placeholder ({0}, {v}); items also arrive through macro_rules! wrappers whose caller supplies the literals or the field names. A derive panic, a release-only failure, or a rejection of the enum's format core (literals format! accepts) is a violation. Non-trivial = grid cell that pads or truncates; literal with >= 2 placeholders, a spec or an escaped brace; distinct by (program, variant, cell / payload).".into(),
                assumptions: vec!["outer format spec on an interpolated variant is not asserted (statement silent)".into()],
            }
        }
        "C18" => {
            let n = if thorough { 512 } else { 320 };
            let mut cfg = string_cfg(id);
            cfg.allow_default = true;
            let mut specs: Vec<EnumSpec> = (0..n)
                .map(|i| {
                    let mut c = cfg.clone();
                    c.parse_err = Some(i % 3 != 2);
                    c.mixed_case_overlap = i % 5 != 1 && i % 4 == 0;
                    if i % 5 == 1 {
                        // through the phf map: the error function still runs only for rejected inputs
                        c.allow_fields = false;
                        c.allow_generics = false;
                        c.allow_default = false;
                        c.sync_only = true;
                        c.phf = true;
                    }
                    let mut s = gen::gen_string(&mut rg, &c);
                    // C18's domain has no (effective) default variant: a `default` variant may only
                    // appear disabled, where it must not act as a catch-all
                    for v in s.variants.iter_mut() {
                        if v.is_default() && !v.disabled() {
                            v.groups.push(vec![VAttr::Disabled]);
                        }
                    }
                    // enums whose spellings all start alike (`AppsStart`, `AppsStop`, .. named after their identifiers,
                    // case-sensitive): a rejected input sharing that start must still reach the error function whole
                    if i % 8 == 5 && i % 5 != 1 && s.macro_args.is_empty() {
                        for v in s.variants.iter_mut() {
                            v.ident = format!("Apps{}", v.ident.trim_start_matches("r#"));
                            for g in v.groups.iter_mut() {
                                g.retain(|a| !matches!(a, VAttr::Serialize(_) | VAttr::ToString(_) | VAttr::Ci(_)));
                            }
                            v.groups.retain(|g| !g.is_empty());
                        }
                        for g in s.groups.iter_mut() {
                            g.retain(|a| !matches!(a, EAttr::Ci));
                        }
                        s.groups.retain(|g| !g.is_empty());
                        gen::repair_spellings(&mut s);
                    }
                    s
                })
                .collect();
            name_specs(&mut specs, round);
            Plan {
                specs,
                params: params(&[("cases", if thorough { 5000 } else { 1000 }), ("max_flip_letters", if thorough { 10 } else { 8 })]),
                strum_features: vec!["derive".into(), "phf".into()],
                profiles: vec!["dev", "rel"],
                policy: Policy::TaggedOnly,
                rule: "programs: C01's domain without default variants (an eighth of them enums whose spellings all share a start, AppsStart / AppsStop .., named after their identifiers only); two thirds declare parse_err_ty/parse_err_fn (the emitted function counts its calls and stores its argument), one third does not. Oracle: model match => Ok and the call counter did not move; otherwise Err(e) with e carrying the caller's input byte for byte and the counter moved by exactly one, for from_str and try_from; FromStr::Err / TryFrom::Error are pinned by type ascription on a tagged line (a compile error there is a violation); without the attributes the error is ParseError::VariantNotFound. Non-trivial as C01.".into(),
                assumptions: vec!["as C01".into()],
            }
        }
        "C04" => {
            let mut specs = Vec::new();
            let base = gen::IterCfg { derives: derives(&["EnumIter", "EnumCount"]), max_variants: 12, ..Default::default() };
            // every disabled mask for n <= 7 (2 + 4 + .. + 128 = 254 programs) in round 0; random programs otherwise
            if round == 0 {
                for n in 1..=7usize {
                    for m in 0..(1u32 << n) {
                        let mut c = base.clone();
                        c.mask = Some((n, m));
                        specs.push(gen::gen_iter(&mut rg, &c));
                    }
                }
            }
            // cursor widths: exactly as many variants as a byte can count, one fewer, a few more
            if round == 0 {
                for (n, m) in [(256usize, 0u32), (255, 0), (260, 0b1010)] {
                    let mut c = base.clone();
                    c.mask = Some((n, m));
                    c.fieldless = true;
                    specs.push(gen::gen_iter(&mut rg, &c));
                }
            }
            let extra = if thorough { 640 } else { 255 };
            for k in 0..extra {
                let mut b = base.clone();
                if k % 40 == 7 {
                    b.max_variants = 70; // a few large enums
                }
                specs.push(gen::gen_iter(&mut rg, &b));
            }
            name_specs(&mut specs, round);
            Plan {
                specs,
                params: params(&[]),
                strum_features: vec!["derive".into()],
                profiles: vec!["dev", "rel"],
                policy: Policy::TaggedOnly,
                rule: "programs: EnumIter + EnumCount enums with 0..12 variants of all kinds, type/const generics, payload types with non-zero Default; ALL 2^n disabled masks for n = 1..7 (round 0) plus random ones. Oracle: the model list (enabled variants in declaration order, Default payloads): forward, reverse, count/len/COUNT, and a both-ends walk. Non-trivial = a disabled variant before the last enabled one, or a data-carrying variant; distinct by program.".into(),
                assumptions: vec!["glue (index match, payload rendering) emitted by the harness is trusted".into()],
            }
        }
        "C05" => {
            let mut specs = Vec::new();
            let reps = if thorough { 6 } else { 4 };
            for n in 0..=8usize {
                for _ in 0..reps {
                    let c = gen::IterCfg { derives: derives(&["EnumIter"]), max_variants: 12, n_enabled: Some(n), ..Default::default() };
                    specs.push(gen::gen_iter(&mut rg, &c));
                }
            }
            // larger enums with disabled variants in the middle: which variant sits at which cursor position
            for (n, m) in [(36usize, 0b100100u32), (67, 0b10)] {
                let c = gen::IterCfg { derives: derives(&["EnumIter"]), max_variants: 12, mask: Some((n, m)), fieldless: true, ..Default::default() };
                specs.push(gen::gen_iter(&mut rg, &c));
            }
            name_specs(&mut specs, round);
            Plan {
                specs,
                params: params(&[("depth", if thorough { 4 } else { 3 }), ("cases", if thorough { 20000 } else { 5000 })]),
                strum_features: vec!["derive".into()],
                profiles: vec!["dev", "rel"],
                policy: Policy::TaggedOnly,
                rule: "programs: EnumIter enums with N = 0..8 enabled variants (several each, with interleaved disabled variants, data variants, type parameters) plus two field-less enums with 36 and 67 variants and disabled variants in the middle (arguments thinned to both ends, the middle and one past the end); histories: ALL sequences over {next, next_back, nth(k), nth_back(k), clone, switch-copy} with k in 0..N+1 (phase 1) and additionally usize::MAX-1, usize::MAX (phase 2) up to the stated depth, all skip/step_by/take/rev chains of depth <= 2, then proptest histories of length < 64; run in a dev build (overflow checks on) and a release build (off). Oracle: std's Range<usize> mirrored step by step (item, len, size_hint after every call, independent copies, drain + fusedness at the end, no panic). Non-trivial = history touching both ends, or nth/nth_back with k >= 1, or a copy; distinct by (program, history).".into(),
                assumptions: vec!["std::ops::Range<usize> is a correct double-ended exact-size fused iterator".into()],
            }
        }
        "C08" => {
            let n = if thorough { 768 } else { 512 };
            let mut specs = Vec::new();
            for i in 0..n {
                let fieldless = i % 2 == 0;
                let mut d = vec!["EnumIter", "EnumCount", "VariantNames"];
                if fieldless {
                    d.push("VariantArray");
                }
                let c = gen::IterCfg { derives: derives(&d), max_variants: 10, fieldless, naming: true, discriminants: fieldless, dup_names: true, mask: if i % 3 == 0 { Some((rg.range(0, 9), 0)) } else { None }, ..Default::default() };
                specs.push(gen::gen_iter(&mut rg, &c));
            }
            name_specs(&mut specs, round);
            Plan {
                specs,
                params: params(&[]),
                strum_features: vec!["derive".into()],
                profiles: vec!["dev", "rel"],
                policy: Policy::TaggedOnly,
                rule: "programs: enums deriving EnumCount + EnumIter + VariantNames (+ VariantArray when field-less) with 0..10 variants, naming attributes, serialize_all, prefix, explicit discriminants, generics and disabled variants (a third without any). Oracle: COUNT == #enabled == iter().count(); VariantNames::VARIANTS == model canonical names of ALL declared variants in order; VariantArray::VARIANTS[i] is declaration index i; without disabled variants position i agrees across all four. Non-trivial = >= 3 variants and (disabled variant or naming attribute or explicit discriminant); distinct by program.".into(),
                assumptions: vec!["canonical-name model as in C03".into()],
            }
        }
        "C06" => {
            let per = if thorough { 48 } else { 24 };
            let mut specs = Vec::new();
            for r in gen::REPRS.iter() {
                for _ in 0..per {
                    specs.push(gen::gen_repr(&mut rg, *r, &derives(&["FromRepr"])));
                }
            }
            // long runs of implicit discriminants (every value of the repr is still tried for 8/16 bits)
            if round == 0 {
                let at = specs.len();
                specs[at - 1] = gen::gen_repr_large(&mut rg, "u8", 140);
                specs[at - 2] = gen::gen_repr_large(&mut rg, "i16", 70);
            }
            name_specs(&mut specs, round);
            Plan {
                specs,
                params: params(&[("cases", if thorough { 20000 } else { 2000 })]),
                strum_features: vec!["derive".into()],
                profiles: vec!["dev", "rel"],
                policy: Policy::TaggedOnly,
                rule: "programs: FromRepr enums for each repr in {none,u8,i8,u16,i16,u32,i32,u64,i64,usize,isize} with any mix of implicit and explicit discriminants (decimal, hex, shifts, sums, a typed BASE const, negative, gapped, descending, near MIN/MAX), disabled variants anywhere, data variants where rustc allows them. Inputs: EVERY value of 8/16-bit discriminant types; for wider types every discriminant +-1/+-2, 0, MIN, MAX, dense indices and proptest-generated values. Oracle: the discriminant rule over ALL declared variants (cross-checked against rustc through `v as R` / the documented pointer read on every variant), Some(V with Default payload) iff V enabled and disc(V) == d; const-evaluated from_repr for field-less enums. Non-trivial = program with a disabled variant before an enabled one, an explicit discriminant or a signed repr, and d within +-1 of a declared discriminant; distinct by (program, d).".into(),
                assumptions: vec!["`v as R` and the primitive-repr pointer read give rustc's discriminant".into()],
            }
        }
        "C14" | "C15" => {
            let n = if thorough { 640 } else { 384 };
            let mut cfg = string_cfg(id);
            cfg.derives = derives(&[if id == "C14" { "EnumMessage" } else { "EnumProperty" }]);
            // a prefix is a print-side feature: get_serializations lists what the parser accepts
            cfg.allow_prefix = true;
            cfg.allow_default = false;
            cfg.allow_default_with = false;
            cfg.min_variants = 1;
            let mut specs: Vec<EnumSpec> = (0..n).map(|_| gen::gen_meta(&mut rg, &cfg, id == "C15")).collect();
            name_specs(&mut specs, round);
            let (rule, ass) = if id == "C14" {
                ("programs: EnumMessage enums x all kinds x generics x message / detailed_message presence x 0..4 doc lines given as ///, /** */ or #[doc = ..] with 0..3 leading spaces, tabs, empty lines, quotes, braces, non-ASCII x all naming attributes x serialize_all x disabled variants. Oracle: model message / detailed (fallback to message) / documentation (one leading space stripped per line; one line as is, several each terminated by a newline), all None on disabled variants; get_serializations equals the C01 spelling list as a set for EVERY variant, disabled or not. Non-trivial = variant with >= 2 doc lines or uneven leading whitespace, or both message kinds plus naming attributes, or a disabled variant carrying messages; distinct by (program, variant, getter).", "a /** */ comment is one doc line containing newlines (measured)")
            } else {
                ("programs: EnumProperty enums x all kinds x 0..6 properties per variant over 1..3 props(..) groups mixed with other attributes, keys shared across variants and across types incl. keyword keys (type, fn, match, Self, crate, self, super, async, dyn), values: strings, integers (0, negatives, i64::MIN/MAX, hex), booleans; disabled variants. Queries: EVERY key declared anywhere in the enum, case / prefix / suffix / raw-prefix variations, the empty string and proptest-generated keys, through get_str, get_int and get_bool on every variant. Oracle: model union of all groups bucketed by literal type, None elsewhere. Non-trivial = declared key queried on a variant that lacks it or has it with fewer than all three types; distinct by (program, variant, key).", "a (key, type) pair is declared at most once per variant; raw-identifier keys are left out (stored with the r# prefix)")
            };
            Plan {
                specs,
                params: params(&[("cases", if thorough { 2000 } else { 200 })]),
                strum_features: vec!["derive".into()],
                profiles: vec!["dev", "rel"],
                policy: Policy::TaggedOnly,
                rule: rule.into(),
                assumptions: vec![ass.into()],
            }
        }
        "C10" => {
            let reps = if thorough { 40 } else { 24 };
            let mut specs = Vec::new();
            for ne in 1..=8usize {
                for _ in 0..reps {
                    specs.push(gen::gen_table(&mut rg, ne));
                }
            }
            // more keys than a byte can count
            specs.push(gen::gen_table_large(&mut rg, 259));
            if thorough {
                specs.push(gen::gen_table_large(&mut rg, 300));
            }
            name_specs(&mut specs, round);
            Plan {
                specs,
                params: params(&[("depth", if thorough { 5 } else { 4 }), ("cases", if thorough { 10000 } else { 600 }), ("exhaustive_max_n", 4)]),
                strum_features: vec!["derive".into()],
                profiles: vec!["dev", "rel"],
                policy: Policy::TaggedOnly,
                rule: "programs: field-less enums deriving EnumTable with 1..8 enabled variants (plus two enums of 259 and 300 keys), 0..3 disabled ones anywhere, optional #[repr] and shuffled explicit discriminants, identifiers with digits / acronyms / underscores / keyword look-alikes. Oracle: a Vec model indexed by position in the enabled list. Constructors: new(10, 11, ..)[k_i] == 10 + i, filled, from_closure with an injective function of the key (never called with a disabled key), transform with f(k, v) = 100 * index(k) + v (source untouched), all() over EVERY Some/None mask and all_ok() over EVERY Ok/Err mask with distinct error payloads (first Err in declaration order), indexing / index_mut with each disabled variant must panic. Histories: ALL write / snapshot / compare sequences up to the stated length over all keys x values {0,1,2} for n <= 4 (after every write the whole table is read back), then proptest histories of length < 48 for every n. Non-trivial = history writing >= 2 distinct keys with distinct values, every mask; distinct by (program, history / mask).".into(),
                assumptions: vec!["table API is used through the names predicted by the model on tagged lines".into()],
            }
        }
        "C09" => {
            let n = if thorough { 640 } else { 320 };
            let mut specs: Vec<EnumSpec> = (0..n).map(|_| gen::gen_disc(&mut rg)).collect();
            name_specs(&mut specs, round);
            Plan {
                specs,
                params: params(&[("draws", if thorough { 32 } else { 8 })]),
                strum_features: vec!["derive".into()],
                profiles: vec!["dev", "rel"],
                policy: Policy::TaggedOnly,
                rule: "programs: EnumDiscriminants enums x all kinds x payload types that are neither Default nor Clone x type / lifetime parameters with bounds and where-clauses x repr (none, u8, i8, u16, i32, u64, align(4)+u8) x explicit discriminants (decimal, hex, shifts, gapped, descending) x name(..) x vis(pub | pub(crate) | pub(super) | empty | absent) x derive(..) lists (EnumIter, EnumString, Display, VariantNames, FromRepr, Hash, PartialOrd, Ord) x pass-through strum attributes at enum and variant level x docs; E's own #[strum] attributes present as decoys. Oracle: (i) an exhaustive wildcard-free match over the generated type with exactly the declared names must compile (tagged line); (ii) for every variant value built twice from generated payloads, From<&E>, From<E> and IntoDiscriminant::discriminant (when its impl is expected) give the variant with the same declaration index; (iii) D::V as R equals the model discriminant and e's own discriminant (cast / pointer read, cross-checked with rustc), size_of::<D>() == size_of::<R>() under a repr; (iv) every requested derive is observable on D under the overridden name, reached from outside the defining module unless vis() is empty: iter order, from_str / Display / VARIANTS with the pass-through naming (and never E's own spellings), from_repr, std traits by static assertion. Non-trivial = data-carrying enum with an explicit discriminant, generics or a pass-through attribute; distinct by (program, variant, payload draw).".into(),
                assumptions: vec!["names of the generated type and of the API are written on tagged lines; an error there is a violation".into()],
            }
        }
        "C13" => {
            let n = if thorough { 640 } else { 384 };
            let mut specs: Vec<EnumSpec> = (0..n).map(|_| gen::gen_shape(&mut rg)).collect();
            // more variants than a byte can number
            if round == 0 {
                let at = specs.len() - 1;
                specs[at] = gen::gen_shape_large(&mut rg, 300);
            }
            name_specs(&mut specs, round);
            Plan {
                specs,
                params: params(&[("draws", if thorough { 64 } else { 16 })]),
                strum_features: vec!["derive".into()],
                profiles: vec!["dev", "rel"],
                policy: Policy::TaggedOnly,
                rule: "programs: enums deriving EnumIs + EnumTryAs with 1..8 variants of all kinds, tuple variants with 0..3 fields of distinct and (deliberately) equal types, several variants with identical signatures, type and lifetime parameters, payload types without Default/Clone, identifiers with digits / acronyms / underscores, disabled variants; method names predicted by the model (snake_case, digits split off) and called on tagged lines (a missing or differently named method is a violation). Oracle: the full n x n matrix e_i.is_j() == (i == j) (all false for a disabled variant's value), try_as_j by value == Some(payload in order) iff i == j, _ref returns references pointer-equal to the fields found by a hand-written match, a write through _mut is visible in e afterwards, in order, and leaves other variants untouched. Non-trivial = enum with two tuple variants of the same signature or a variant with two fields of one type; distinct by (program, i, j, payload draw).".into(),
                assumptions: vec!["identifiers where an underscore directly precedes a digit are kept out (statement does not fix their method name)".into()],
            }
        }
        _ => panic!("unknown property {}", id),
    }
}
