//! Per-property plans: which corpus to generate, which checker runs, budgets per tier.

use crate::corpus::Policy;
use std::collections::BTreeMap;
use vmodel::emit::{self, ModOpts, ModuleSrc};
use vmodel::gen::{self, GenCfg, Rg};
use vmodel::spec::*;

pub struct Plan {
    pub specs: Vec<EnumSpec>,
    pub params: BTreeMap<String, u64>,
    pub strum_features: Vec<String>,
    /// "dev" and/or "rel"
    pub profiles: Vec<&'static str>,
    pub policy: Policy,
    pub rule: String,
    pub assumptions: Vec<String>,
}

pub fn rounds(id: &str, tier: &str) -> u64 {
    let _ = id;
    if tier == "thorough" {
        8
    } else {
        1
    }
}

fn params(pairs: &[(&str, u64)]) -> BTreeMap<String, u64> {
    pairs.iter().map(|(k, v)| (k.to_string(), *v)).collect()
}

fn name_specs(specs: &mut Vec<EnumSpec>, round: u64) {
    for (i, s) in specs.iter_mut().enumerate() {
        s.name = format!("En{}x{:04}", round, i);
    }
}

fn derives(d: &[&str]) -> Vec<String> {
    d.iter().map(|s| s.to_string()).collect()
}

pub fn string_cfg(id: &str) -> GenCfg {
    let mut c = GenCfg {
        property: id.to_string(),
        max_variants: 8,
        derives: derives(&["EnumString"]),
        allow_default: true,
        allow_transparent: false,
        allow_prefix: false,
        allow_fields: true,
        allow_placeholders: false,
        allow_generics: true,
        allow_disabled: true,
        allow_ci: true,
        allow_default_with: true,
        parse_err: Some(false),
        force_style: None,
        plain_literals: false,
        const_into_str: false,
        min_variants: 0,
        phf: false,
    };
    match id {
        "C01" => {}
        _ => {}
    }
    let _ = &mut c;
    c
}

/// the module emitter for a property
pub fn module_for(id: &str, spec: &EnumSpec) -> ModuleSrc {
    match id {
        "C01" => emit::module_string(spec, &ModOpts { property: id, run_fn: "vrt::strfam::c01", twin: None }),
        "C04" => emit::module_iter(spec, &ModOpts { property: id, run_fn: "vrt::iterfam::c04", twin: None }),
        "C05" => emit::module_iter(spec, &ModOpts { property: id, run_fn: "vrt::iterfam::c05", twin: None }),
        "C08" => emit::module_iter(spec, &ModOpts { property: id, run_fn: "vrt::iterfam::c08", twin: None }),
        "C06" => emit::module_repr(spec, &ModOpts { property: id, run_fn: "vrt::reprfam::c06", twin: None }),
        _ => panic!("no module emitter for {}", id),
    }
}

pub fn plan(id: &str, tier: &str, seed: u64, round: u64) -> Plan {
    let thorough = tier == "thorough";
    let mut rg = Rg::from_seed(vmodel::derive_seed(seed, id, round, 0x9e37));
    match id {
        "C01" => {
            let n = if thorough { 480 } else { 192 };
            let cfg = string_cfg(id);
            let mut specs: Vec<EnumSpec> = (0..n)
                .map(|i| {
                    let mut c = cfg.clone();
                    // a quarter of the corpus uses the custom error, without default variants
                    if i % 4 == 3 {
                        c.parse_err = Some(true);
                        c.allow_default = false;
                    }
                    gen::gen_string(&mut rg, &c)
                })
                .collect();
            name_specs(&mut specs, round);
            Plan {
                specs,
                params: params(&[("cases", if thorough { 5000 } else { 600 }), ("max_flip_letters", if thorough { 12 } else { 8 })]),
                strum_features: vec!["derive".into()],
                profiles: vec!["dev"],
                policy: Policy::TaggedOnly,
                rule: "programs: EnumString enums generated from pools (0..8 variants, all kinds, generics, every naming / disabled / default / default_with / ascii_case_insensitive combination, non-overlapping spellings by construction); inputs: every declared spelling, every identifier conversion, all 2^k case flips (k <= max_flip_letters), look-alike substitutions, then proptest-generated flips / one-edit neighbours / random strings. Oracle: independent reference model `parse`; from_str and try_from must agree with it and with each other on variant, payload and error. Non-trivial = enum has >= 2 enabled variants and the input is a spelling, flip, edit, derived name or look-alike; distinct by (program, input).".into(),
                assumptions: vec![
                    "glue (index match, payload rendering) emitted by the harness is trusted".into(),
                    "spellings of distinct variants do not overlap (guaranteed by the generator's repair step)".into(),
                ],
            }
        }
        "C04" => {
            let mut specs = Vec::new();
            let base = gen::IterCfg { derives: derives(&["EnumIter", "EnumCount"]), max_variants: 12, ..Default::default() };
            // every disabled mask for n <= 7 (2 + 4 + .. + 128 = 254 programs) in round 0; random programs otherwise
            if round == 0 {
                for n in 1..=7usize {
                    for m in 0..(1u32 << n) {
                        let mut c = base.clone();
                        c.mask = Some((n, m));
                        specs.push(gen::gen_iter(&mut rg, &c));
                    }
                }
            }
            let extra = if thorough { 640 } else { 130 };
            for _ in 0..extra {
                specs.push(gen::gen_iter(&mut rg, &base));
            }
            name_specs(&mut specs, round);
            Plan {
                specs,
                params: params(&[]),
                strum_features: vec!["derive".into()],
                profiles: vec!["dev"],
                policy: Policy::TaggedOnly,
                rule: "programs: EnumIter + EnumCount enums with 0..12 variants of all kinds, type/const generics, payload types with non-zero Default; ALL 2^n disabled masks for n = 1..7 (round 0) plus random ones. Oracle: the model list (enabled variants in declaration order, Default payloads): forward, reverse, count/len/COUNT, and a both-ends walk. Non-trivial = a disabled variant before the last enabled one, or a data-carrying variant; distinct by program.".into(),
                assumptions: vec!["glue (index match, payload rendering) emitted by the harness is trusted".into()],
            }
        }
        "C05" => {
            let mut specs = Vec::new();
            let reps = if thorough { 6 } else { 3 };
            for n in 0..=8usize {
                for _ in 0..reps {
                    let c = gen::IterCfg { derives: derives(&["EnumIter"]), max_variants: 12, n_enabled: Some(n), ..Default::default() };
                    specs.push(gen::gen_iter(&mut rg, &c));
                }
            }
            name_specs(&mut specs, round);
            Plan {
                specs,
                params: params(&[("depth", if thorough { 4 } else { 3 }), ("cases", if thorough { 20000 } else { 3000 })]),
                strum_features: vec!["derive".into()],
                profiles: vec!["dev", "rel"],
                policy: Policy::TaggedOnly,
                rule: "programs: EnumIter enums with N = 0..8 enabled variants (several each, with interleaved disabled variants, data variants, type parameters); histories: ALL sequences over {next, next_back, nth(k), nth_back(k), clone, switch-copy} with k in 0..N+1 (phase 1) and additionally usize::MAX-1, usize::MAX (phase 2) up to the stated depth, all skip/step_by/take/rev chains of depth <= 2, then proptest histories of length < 64; run in a dev build (overflow checks on) and a release build (off). Oracle: std's Range<usize> mirrored step by step (item, len, size_hint after every call, independent copies, drain + fusedness at the end, no panic). Non-trivial = history touching both ends, or nth/nth_back with k >= 1, or a copy; distinct by (program, history).".into(),
                assumptions: vec!["std::ops::Range<usize> is a correct double-ended exact-size fused iterator".into()],
            }
        }
        "C08" => {
            let n = if thorough { 640 } else { 256 };
            let mut specs = Vec::new();
            for i in 0..n {
                let fieldless = i % 2 == 0;
                let mut d = vec!["EnumIter", "EnumCount", "VariantNames"];
                if fieldless {
                    d.push("VariantArray");
                }
                let c = gen::IterCfg { derives: derives(&d), max_variants: 10, fieldless, naming: true, discriminants: fieldless, mask: if i % 3 == 0 { Some((rg.range(0, 9), 0)) } else { None }, ..Default::default() };
                specs.push(gen::gen_iter(&mut rg, &c));
            }
            name_specs(&mut specs, round);
            Plan {
                specs,
                params: params(&[]),
                strum_features: vec!["derive".into()],
                profiles: vec!["dev"],
                policy: Policy::TaggedOnly,
                rule: "programs: enums deriving EnumCount + EnumIter + VariantNames (+ VariantArray when field-less) with 0..10 variants, naming attributes, serialize_all, prefix, explicit discriminants, generics and disabled variants (a third without any). Oracle: COUNT == #enabled == iter().count(); VariantNames::VARIANTS == model canonical names of ALL declared variants in order; VariantArray::VARIANTS[i] is declaration index i; without disabled variants position i agrees across all four. Non-trivial = >= 3 variants and (disabled variant or naming attribute or explicit discriminant); distinct by program.".into(),
                assumptions: vec!["canonical-name model as in C03".into()],
            }
        }
        "C06" => {
            let per = if thorough { 48 } else { 16 };
            let mut specs = Vec::new();
            for r in gen::REPRS.iter() {
                for _ in 0..per {
                    specs.push(gen::gen_repr(&mut rg, *r, &derives(&["FromRepr"])));
                }
            }
            name_specs(&mut specs, round);
            Plan {
                specs,
                params: params(&[("cases", if thorough { 20000 } else { 2000 })]),
                strum_features: vec!["derive".into()],
                profiles: vec!["dev"],
                policy: Policy::TaggedOnly,
                rule: "programs: FromRepr enums for each repr in {none,u8,i8,u16,i16,u32,i32,u64,i64,usize,isize} with any mix of implicit and explicit discriminants (decimal, hex, shifts, sums, a typed BASE const, negative, gapped, descending, near MIN/MAX), disabled variants anywhere, data variants where rustc allows them. Inputs: EVERY value of 8/16-bit discriminant types; for wider types every discriminant +-1/+-2, 0, MIN, MAX, dense indices and proptest-generated values. Oracle: the discriminant rule over ALL declared variants (cross-checked against rustc through `v as R` / the documented pointer read on every variant), Some(V with Default payload) iff V enabled and disc(V) == d; const-evaluated from_repr for field-less enums. Non-trivial = program with a disabled variant before an enabled one, an explicit discriminant or a signed repr, and d within +-1 of a declared discriminant; distinct by (program, d).".into(),
                assumptions: vec!["`v as R` and the primitive-repr pointer read give rustc's discriminant".into()],
            }
        }
        _ => panic!("unknown property {}", id),
    }
}
