//! Per-property plans: which corpus to generate, which checker runs, budgets per tier.

use crate::corpus::Policy;
use std::collections::BTreeMap;
use vmodel::emit::{self, ModOpts, ModuleSrc};
use vmodel::gen::{self, GenCfg, Rg};
use vmodel::spec::*;

pub struct Plan {
    pub specs: Vec<EnumSpec>,
    pub params: BTreeMap<String, u64>,
    pub strum_features: Vec<String>,
    /// "dev" and/or "rel"
    pub profiles: Vec<&'static str>,
    pub policy: Policy,
    pub rule: String,
    pub assumptions: Vec<String>,
}

pub fn rounds(id: &str, tier: &str) -> u64 {
    let _ = id;
    if tier == "thorough" {
        8
    } else {
        1
    }
}

fn params(pairs: &[(&str, u64)]) -> BTreeMap<String, u64> {
    pairs.iter().map(|(k, v)| (k.to_string(), *v)).collect()
}

fn name_specs(specs: &mut Vec<EnumSpec>, round: u64) {
    for (i, s) in specs.iter_mut().enumerate() {
        s.name = format!("En{}x{:04}", round, i);
    }
}

fn derives(d: &[&str]) -> Vec<String> {
    d.iter().map(|s| s.to_string()).collect()
}

pub fn string_cfg(id: &str) -> GenCfg {
    let mut c = GenCfg {
        property: id.to_string(),
        max_variants: 8,
        derives: derives(&["EnumString"]),
        allow_default: true,
        allow_transparent: false,
        allow_prefix: false,
        allow_fields: true,
        allow_placeholders: false,
        allow_generics: true,
        allow_disabled: true,
        allow_ci: true,
        allow_default_with: true,
        parse_err: Some(false),
        force_style: None,
        plain_literals: false,
        const_into_str: false,
        min_variants: 0,
        phf: false,
    };
    match id {
        "C01" => {}
        _ => {}
    }
    let _ = &mut c;
    c
}

/// the module emitter for a property
pub fn module_for(id: &str, spec: &EnumSpec) -> ModuleSrc {
    match id {
        "C01" => emit::module_string(spec, &ModOpts { property: id, run_fn: "vrt::strfam::c01", twin: None }),
        _ => panic!("no module emitter for {}", id),
    }
}

pub fn plan(id: &str, tier: &str, seed: u64, round: u64) -> Plan {
    let thorough = tier == "thorough";
    let mut rg = Rg::from_seed(vmodel::derive_seed(seed, id, round, 0x9e37));
    match id {
        "C01" => {
            let n = if thorough { 480 } else { 192 };
            let cfg = string_cfg(id);
            let mut specs: Vec<EnumSpec> = (0..n)
                .map(|i| {
                    let mut c = cfg.clone();
                    // a quarter of the corpus uses the custom error, without default variants
                    if i % 4 == 3 {
                        c.parse_err = Some(true);
                        c.allow_default = false;
                    }
                    gen::gen_string(&mut rg, &c)
                })
                .collect();
            name_specs(&mut specs, round);
            Plan {
                specs,
                params: params(&[("cases", if thorough { 5000 } else { 600 }), ("max_flip_letters", if thorough { 12 } else { 8 })]),
                strum_features: vec!["derive".into()],
                profiles: vec!["dev"],
                policy: Policy::TaggedOnly,
                rule: "programs: EnumString enums generated from pools (0..8 variants, all kinds, generics, every naming / disabled / default / default_with / ascii_case_insensitive combination, non-overlapping spellings by construction); inputs: every declared spelling, every identifier conversion, all 2^k case flips (k <= max_flip_letters), look-alike substitutions, then proptest-generated flips / one-edit neighbours / random strings. Oracle: independent reference model `parse`; from_str and try_from must agree with it and with each other on variant, payload and error. Non-trivial = enum has >= 2 enabled variants and the input is a spelling, flip, edit, derived name or look-alike; distinct by (program, input).".into(),
                assumptions: vec![
                    "glue (index match, payload rendering) emitted by the harness is trusted".into(),
                    "spellings of distinct variants do not overlap (guaranteed by the generator's repair step)".into(),
                ],
            }
        }
        _ => panic!("unknown property {}", id),
    }
}
