//! C19: generated code depends only on ::core and on the configured strum path.
//! The corpora of all families, restricted to core-only payloads and plain literals, are compiled
//! as library crates under three configurations.

use crate::corpus::*;
use crate::{Outcome, Violation};
use serde_json::json;
use std::collections::BTreeSet;
use vmodel::emit::{self, ModuleSrc, Src};
use vmodel::gen::{self, GenCfg, Rg};
use vmodel::spec::*;

const PRELUDE: &str = r#"#[derive(Default, Clone, PartialEq, Debug)] pub struct W;
impl<'a> ::core::convert::From<&'a str> for W { fn from(_: &'a str) -> W { W } }
impl ::core::fmt::Display for W { fn fmt(&self, f: &mut ::core::fmt::Formatter) -> ::core::fmt::Result { f.write_str("w") } }
impl ::core::convert::AsRef<str> for W { fn as_ref(&self) -> &str { "w" } }
impl<'a> ::core::convert::From<&'a W> for &'static str { fn from(_: &'a W) -> &'static str { "w" } }
pub struct MyErr; pub fn mk_err(_: &str) -> MyErr { MyErr }"#;

#[derive(Clone, Copy, PartialEq, Eq, Debug)]
pub enum Config {
    /// #![no_std] library, strum default-features = false, no alloc
    NoStd,
    /// strum only reachable as `strum_x` / through a nested re-export
    Renamed,
    /// local modules named core and std in scope
    Shadowed,
}

impl Config {
    fn tag(self) -> &'static str {
        match self {
            Config::NoStd => "A-no_std",
            Config::Renamed => "B-renamed-crate",
            Config::Shadowed => "C-shadowed-core-std",
        }
    }
}

fn derives(d: &[&str]) -> Vec<String> {
    d.iter().map(|s| s.to_string()).collect()
}

/// the template classes a spec exercises (for the evidence)
pub fn classes(e: &EnumSpec) -> Vec<String> {
    let mut out = BTreeSet::new();
    for d in &e.derives {
        for v in &e.variants {
            let kind = format!("{:?}", v.kind).to_lowercase();
            let mut c = vec![format!("{}:{}", d, kind)];
            if v.disabled() {
                c.push(format!("{}:disabled", d));
            }
            if v.transparent() {
                c.push(format!("{}:transparent-{}", d, kind));
            }
            if v.is_default() {
                c.push(format!("{}:default-{}", d, kind));
            }
            if v.to_string_lit().map(|l| l.contains('{')).unwrap_or(false) {
                c.push(format!("{}:placeholder-{}", d, kind));
            }
            if d == "EnumString" {
                c.push(format!("EnumString:{}", if vmodel::model::is_ci(e, v) { "ci-arm" } else { "cs-arm" }));
                if v.default_with() {
                    c.push("EnumString:default_with-variant".into());
                }
                if v.kind == vmodel::spec::Kind::Named && v.fields.iter().any(|f| f.default_with) {
                    c.push("EnumString:default_with-field".into());
                }
            }
            if d == "EnumMessage" && !v.docs.is_empty() {
                c.push(format!("EnumMessage:docs-{}", v.docs.len().min(2)));
            }
            out.extend(c);
        }
        if d == "EnumString" {
            if e.parse_err() {
                out.insert("EnumString:custom-error".into());
            }
            if e.use_phf() {
                out.insert("EnumString:phf".into());
            }
        }
        if d == "IntoStaticStr" && e.const_into_str() {
            out.insert("IntoStaticStr:const_into_str".into());
        }
        if e.has_generics() {
            out.insert(format!("{}:generic", d));
        }
        if e.variants.is_empty() {
            out.insert(format!("{}:empty-enum", d));
        }
        if d == "EnumDiscriminants" {
            if let Some(o) = &e.disc_opts {
                for dd in &o.derives {
                    out.insert(format!("EnumDiscriminants:derive({})", dd.replace("strum::", "")));
                }
                out.insert(format!("EnumDiscriminants:vis({})", o.vis.clone().unwrap_or_else(|| "-".into())));
            }
        }
    }
    out.into_iter().collect()
}

fn string_cfg(ds: &[&str]) -> GenCfg {
    GenCfg {
        property: "C19".into(),
        max_variants: 6,
        derives: derives(ds),
        allow_default: ds.contains(&"EnumString") || ds.contains(&"Display"),
        allow_transparent: ds.iter().any(|d| ["Display", "AsRefStr", "IntoStaticStr"].contains(d)),
        allow_prefix: true,
        allow_fields: true,
        allow_placeholders: ds == ["Display"],
        allow_generics: true,
        allow_disabled: true,
        allow_ci: true,
        allow_default_with: true,
        parse_err: Some(false),
        force_style: None,
        plain_literals: true,
        const_into_str: ds.contains(&"IntoStaticStr"),
        min_variants: 1,
        phf: false,
        ci_heavy: false,
        idents: vec![],
        sync_only: true,
        dup_names: false,
        mixed_case_overlap: false,
    }
}

pub fn corpus(rg: &mut Rg, per_class: usize) -> Vec<EnumSpec> {
    let mut specs = Vec::new();
    let sets: [&[&str]; 10] = [
        &["EnumString"],
        &["Display"],
        &["AsRefStr"],
        &["IntoStaticStr"],
        &["VariantNames"],
        &["EnumString", "Display", "AsRefStr", "IntoStaticStr"],
        &["EnumMessage"],
        &["EnumProperty"],
        &["EnumString", "EnumMessage", "VariantNames"],
        &["Display", "AsRefStr"],
    ];
    for (si, ds) in sets.iter().enumerate() {
        for k in 0..per_class * 2 {
            let mut c = string_cfg(ds);
            if ds.contains(&"EnumString") {
                c.parse_err = Some(k % 3 == 1);
                if c.parse_err == Some(true) {
                    c.allow_default = false;
                }
            }
            if c.const_into_str {
                c.allow_transparent = k % 2 == 0;
                c.const_into_str = k % 2 == 1;
            }
            if ds.contains(&"EnumMessage") && !ds.contains(&"EnumString") {
                c.allow_default = false;
            }
            if ds.contains(&"EnumProperty") {
                c.allow_default = false;
            }
            // every fourth EnumString program goes through the phf map (configs B and C only; see emit)
            let phf = *ds == ["EnumString"] && k % 4 == 0;
            if phf {
                c.allow_fields = false;
                c.allow_generics = false;
                c.min_variants = 2;
            }
            let mut s = if si == 6 || si == 7 { gen::gen_meta(rg, &c, si == 7) } else { gen::gen_string(rg, &c) };
            if phf {
                s.groups.push(vec![EAttr::UsePhf]);
            }
            specs.push(s);
        }
    }
    for _ in 0..per_class * 2 {
        specs.push(gen::gen_iter(rg, &gen::IterCfg { derives: derives(&["EnumIter", "EnumCount"]), max_variants: 6, ..Default::default() }));
        specs.push(gen::gen_iter(rg, &gen::IterCfg { derives: derives(&["EnumIter", "EnumCount", "VariantNames", "VariantArray"]), max_variants: 6, fieldless: true, naming: true, discriminants: true, ..Default::default() }));
        let r = *rg.pick(&gen::REPRS);
        specs.push(gen::gen_repr(rg, r, &derives(&["FromRepr"])));
        specs.push(gen::gen_shape(rg));
        // every derive also on its own: a helper attribute (`#[strum(crate = ..)]`) must be registered by each of them
        let mut only_is = gen::gen_shape(rg);
        only_is.derives = derives(&["EnumIs"]);
        specs.push(only_is);
        let mut only_try = gen::gen_shape(rg);
        only_try.derives = derives(&["EnumTryAs"]);
        specs.push(only_try);
        specs.push(gen::gen_iter(rg, &gen::IterCfg { derives: derives(&["VariantArray"]), max_variants: 5, fieldless: true, ..Default::default() }));
        specs.push(gen::gen_iter(rg, &gen::IterCfg { derives: derives(&["EnumCount"]), max_variants: 5, ..Default::default() }));
        specs.push(gen::gen_iter(rg, &gen::IterCfg { derives: derives(&["EnumIter"]), max_variants: 5, ..Default::default() }));
        let ne = rg.range(1, 5);
        specs.push(gen::gen_table(rg, ne));
        specs.push(gen::gen_disc(rg));
    }
    // every derive that looks at fields meets all three variant kinds at once, alone on a small enum (the paths a
    // template emits differ by kind: a slip in one arm must not depend on what the random corpora happen to contain)
    for d in ["FromRepr", "EnumIter", "EnumCount", "EnumString", "Display", "AsRefStr", "IntoStaticStr", "VariantNames", "EnumIs", "EnumTryAs", "EnumMessage", "EnumProperty"] {
        let mut e = EnumSpec::new("En");
        e.derives = derives(&[d]);
        let mut t = VariantSpec::unit("Tup");
        t.kind = Kind::Tuple;
        t.fields = vec![FieldSpec { name: None, ty: FieldTy::U8, default_with: false }];
        let mut n = VariantSpec::unit("Named");
        n.kind = Kind::Named;
        n.fields = vec![FieldSpec { name: Some("len".into()), ty: FieldTy::U8, default_with: false }, FieldSpec { name: Some("on".into()), ty: FieldTy::Bool, default_with: false }];
        e.variants = vec![VariantSpec::unit("Plain"), t, n];
        specs.push(e);
    }
    for s in specs.iter_mut() {
        gen::coreify(s);
    }
    specs
}

fn module_plain(e: &EnumSpec, cfg: Config, form: usize) -> ModuleSrc {
    let mut src = Src::default();
    src.push(&format!("pub mod m_{} {{", e.name.to_lowercase()));
    if cfg == Config::Shadowed {
        src.push("mod core {}");
        src.push("mod std {}");
    }
    src.push(PRELUDE);
    let mut e2 = e.clone();
    let mut prefix = if cfg == Config::Renamed { "strum_x::" } else { "strum::" };
    if cfg == Config::Renamed {
        // (a neutral `crate = "::strum"` from the generator does not exist under this configuration)
        for g in e2.groups.iter_mut() {
            g.retain(|a| !matches!(a, EAttr::Crate(_)));
        }
        e2.groups.retain(|g| !g.is_empty());
        // four spellings of the configured path, in rotation: a module-local alias (a single identifier that
        // names a local item, unique per module, so neither an added leading `::` nor a path remembered
        // from another enum resolves), a nested re-export, an absolute path next to a same-named local
        // decoy (a dropped leading `::` resolves to the decoy), and the plain extern-crate name
        let alias = format!("local_strum_{}", e.name.to_lowercase());
        let path: &str = match form % 5 {
            0 => {
                src.push(&format!("use strum_x as {};", alias));
                &alias
            }
            // a local alias that happens to be called `strum`: the bare name is NOT the default `::strum`
            4 => {
                src.push("use strum_x as strum;");
                prefix = "strum::";
                "strum"
            }
            1 => "crate::reexp::inner",
            2 => {
                src.push("mod strum_x {}");
                prefix = "::strum_x::";
                "::strum_x"
            }
            _ => "strum_x",
        };
        e2.groups.push(vec![EAttr::Crate(path.into())]);
        if let Some(o) = e2.disc_opts.as_mut() {
            for d in o.derives.iter_mut() {
                *d = d.replace("strum::", prefix);
            }
            if o.derives.iter().any(|d| d.contains("strum_x::") || d.starts_with("strum::")) {
                // (first or last among the pass-through attributes)
                if form % 2 == 0 {
                    // (followed by at least one other, separately written strum pass-through)
                    if !o.passthrough.iter().any(|p| p.starts_with("strum(")) {
                        o.passthrough.push("strum(prefix = \"d\")".to_string());
                    }
                    o.passthrough.insert(0, format!("strum(crate = \"{}\")", path));
                } else {
                    o.passthrough.push(format!("strum(crate = \"{}\")", path));
                }
            }
        }
    }
    if cfg == Config::NoStd {
        // the phf feature pulls in std; it is exercised under configurations B and C
        for g in e2.groups.iter_mut() {
            g.retain(|a| !matches!(a, EAttr::UsePhf));
        }
        e2.groups.retain(|g| !g.is_empty());
    }
    let name = e2.type_name();
    let mut eo = emit::enum_opts(&e2, &name);
    eo.derive_prefix = prefix;
    eo.t_inst = "u8"; // default type of a defaulted parameter: core only
    eo.err_ty = "MyErr";
    eo.err_fn = "mk_err";
    let clone: &[&str] = &["Clone"];
    let cc: &[&str] = &["Clone", "Copy"];
    if e2.use_phf() {
        eo.extra_std_derives = clone;
    }
    if e2.derives("EnumTable") {
        eo.extra_std_derives = cc;
    }
    src.push(&emit::enum_def(&e2, &eo));
    src.push("}");
    ModuleSrc { enum_name: e.name.clone(), src }
}

pub fn run(env: &Env, tier: &str, seed: u64, out: &mut Outcome) {
    let thorough = tier == "thorough";
    let rounds = if thorough { 6 } else { 1 };
    let per_class = if thorough { 8 } else { 6 };
    out.rule = "programs: the generators of all other families (string, message, property, iter, repr, shape, table, discriminants; every non-deprecated derive, every template class: each Display arm shape, case-sensitive / case-insensitive / default / default_with / custom-error / phf EnumString, const_into_str, transparent, generics ...) restricted to core-only payload types, plain ASCII literals and ordinary identifiers, compiled as library crates under three configurations: (A) #![no_std] with strum default-features = false and no allocator, (B) strum reachable only as the renamed dependency strum_x or through a nested re-export path given via #[strum(crate = ..)] (also passed through to discriminant enums, first among several strum pass-throughs in half of the programs; one path form is a local alias literally named strum), (C) local modules named core and std in every enum's scope; configuration A also in a release build of a crate with its own enabled `std` feature, and linked as a cdylib without an allocator; every field-aware derive also alone on a unit + tuple + named-field enum. Oracle: no compile error attributed to a generated module. Non-trivial = distinct (derive:template-class, configuration) pairs.".into();
    out.assumptions = vec![
        "host target only; the no_std argument rests on name resolution, which is target independent".into(),
        "use_phf is compiled under B and C only (the phf feature itself needs std)".into(),
    ];
    let mut triples: BTreeSet<String> = BTreeSet::new();
    for round in 0..rounds {
        let mut rg = Rg::from_seed(vmodel::derive_seed(seed, "C19", round, 0));
        let mut specs = corpus(&mut rg, per_class);
        for (i, s) in specs.iter_mut().enumerate() {
            s.name = format!("En{}x{:04}", round, i);
            s.rust_name = if i % 4 == 0 { String::new() } else { "En".to_string() };
            if i % 5 == 2 {
                gen::plainify(s);
            }
        }
        let mut handles = Vec::new();
        // configuration A is compiled in both profiles (cfg(debug_assertions) must not matter)
        for (cfgk, profile) in [(Config::NoStd, "dev"), (Config::NoStd, "rel"), (Config::Renamed, "dev"), (Config::Shadowed, "dev")] {
            let specs = specs.clone();
            let envc = Env { verif: env.verif.clone(), repo: env.repo.clone() };
            handles.push(std::thread::spawn(move || {
                let items: Vec<Item> = specs.iter().enumerate().map(|(i, s)| Item { spec: s.clone(), module: module_plain(s, cfgk, i) }).collect();
                let sub = if profile == "rel" { format!("{}-release", cfgk.tag()) } else { cfgk.tag().to_string() };
                let mut cfg = CrateCfg::new(&envc, "C19", &sub);
                cfg.id = format!("c19{}", &cfgk.tag()[..1].to_lowercase());
                cfg.profile = profile.to_string();
                cfg.lib_only = true;
                cfg.with_vrt = false;
                cfg.target_dir = Some(envc.verif.join("target").join(format!("c19{}", &cfgk.tag()[..1].to_lowercase())));
                match cfgk {
                    Config::NoStd => {
                        cfg.header = vec!["#![no_std]".into(), "#![allow(warnings)]".into()];
                        cfg.strum_default_features = false;
                        cfg.strum_features = vec!["derive".into()];
                        // the user crate may have a feature of its own called `std`, and have it enabled: a
                        // `cfg(feature = "std")` inside generated code is evaluated in THIS crate
                        if profile == "rel" {
                            cfg.extra_toml = "[features]\ndefault = [\"std\"]\nstd = []\n".into();
                        }
                    }
                    Config::Renamed => {
                        cfg.header = vec!["#![allow(warnings)]".into(), "pub mod reexp { pub use strum_x as inner; }".into()];
                        cfg.strum_dep_name = "strum_x".into();
                        cfg.strum_features = vec!["derive".into(), "phf".into()];
                    }
                    Config::Shadowed => {
                        cfg.header = vec!["#![allow(warnings)]".into()];
                        cfg.strum_features = vec!["derive".into(), "phf".into()];
                    }
                }
                let em = emit_crate(&envc, &cfg, &items, &BTreeSet::new()).expect("emit");
                let b = cargo_build(&envc, &cfg, &em, true);
                (cfgk, b)
            }));
        }
        for h in handles {
            let (cfgk, b) = h.join().unwrap();
            out.agg.programs += specs.len() as u64;
            out.agg.evaluations += specs.len() as u64;
            for s in &specs {
                for c in classes(s) {
                    triples.insert(format!("{}|{}", c, cfgk.tag()));
                }
            }
            *out.agg.classes.entry(format!("config:{}", cfgk.tag())).or_insert(0) += specs.len() as u64;
            if b.timed_out {
                out.inconclusive = Some("cargo check watchdog".into());
                continue;
            }
            if !b.foreign.is_empty() {
                // under configuration A the strum runtime crate itself must build without std: an error located
                // in <repo>/strum/src is the property failing for every program at once
                let in_runtime = b.foreign.iter().find(|e| e.rendered.contains(&format!("{}/src/", env.repo.join("strum").display())));
                match (cfgk, in_runtime) {
                    (Config::NoStd, Some(e)) => {
                        out.violations.push(Violation {
                            kind: "deps:A-no_std:strum-itself-does-not-build-without-std".into(),
                            enum_name: specs[0].name.clone(),
                            spec: Some(specs[0].clone()),
                            detail: json!({"configuration": cfgk.tag(), "message": e.message, "rendered": e.rendered.lines().take(14).collect::<Vec<_>>().join("\n")}),
                            profile: cfgk.tag().to_string(),
                        });
                    }
                    _ => {
                        out.inconclusive = Some(format!("[{}] error outside generated modules: {}", cfgk.tag(), b.foreign[0].rendered.lines().take(12).collect::<Vec<_>>().join("\n")));
                    }
                }
                continue;
            }
            if !b.success && b.errors.is_empty() {
                out.inconclusive = Some(format!("[{}] cargo failed without attributable diagnostics:\n{}", cfgk.tag(), b.stderr_tail));
                continue;
            }
            // an enum the macros themselves reject with a diagnostic was deliberately put outside the
            // domain (tightened validation): removed, not a violation
            let mut failing: BTreeSet<String> = b.errors.iter().filter_map(|e| e.enum_name.clone()).collect();
            let suspects: Vec<(String, Vec<String>, String)> = failing
                .iter()
                .filter_map(|en| specs.iter().find(|s| &s.name == en))
                .map(|s| {
                    let tn = s.type_name();
                    let eo = emit::enum_opts(s, &tn);
                    (s.name.clone(), s.derives.clone(), emit::enum_item(s, &eo).replace("vrt::MyErr", "MyErr"))
                })
                .collect();
            let accepted = crate::inproc::accepted_by_macros(env, "C19", &suspects);
            for (name, ok) in &accepted {
                // (a plain program - documented constructs, ordinary spelling - stays a violation)
                let plain = specs.iter().find(|s| &s.name == name).map(|s| vmodel::plain::is_plain(s)).unwrap_or(false);
                if !*ok && !plain {
                    failing.remove(name);
                    out.removed.push((name.clone(), "rejected by the derive itself".into()));
                }
            }
            let mut seen = BTreeSet::new();
            for e in &b.errors {
                let en = e.enum_name.clone().unwrap();
                if !failing.contains(&en) || !seen.insert(en.clone()) {
                    continue;
                }
                let spec = specs.iter().find(|s| s.name == en).cloned();
                out.violations.push(Violation {
                    kind: format!("deps:{}:{}", cfgk.tag(), e.message.chars().take(60).collect::<String>()),
                    enum_name: en,
                    spec,
                    detail: json!({"configuration": cfgk.tag(), "message": e.message, "rendered": e.rendered.lines().take(14).collect::<Vec<_>>().join("\n")}),
                    profile: cfgk.tag().to_string(),
                });
            }
        }
        // configuration A, last step: the same no_std library linked as a final artifact (cdylib, panic = abort)
        // without any allocator. `extern crate alloc` inside generated code passes `cargo check` and fails here.
        if out.inconclusive.is_none() && out.violations.is_empty() {
            out.agg.evaluations += specs.len() as u64;
            *out.agg.classes.entry("config:A-no_std:linked-without-allocator".into()).or_insert(0) += specs.len() as u64;
            match link_probe(env, &specs) {
                Ok(None) => {}
                Ok(Some((spec, msg))) => out.violations.push(Violation {
                    kind: "deps:A-no_std:allocator-required".into(),
                    enum_name: spec.name.clone(),
                    spec: Some(spec),
                    detail: json!({"configuration": "A-no_std", "message": msg, "step": "cdylib link without a global allocator"}),
                    profile: "A-no_std".into(),
                }),
                Err(m) => out.inconclusive = Some(m),
            }
        }
        if round == 0 {
            for s in specs.iter().step_by(specs.len() / 4 + 1).take(4) {
                out.agg.samples.push(json!({"enum": s.name, "derives": s.derives, "classes": classes(s), "source": module_plain(s, Config::Renamed, 1).src.text}));
            }
        }
        if out.inconclusive.is_some() || !out.violations.is_empty() {
            break;
        }
    }
    out.agg.nontrivial += triples.len() as u64;
    out.extra.insert("template_class_config_pairs".into(), json!(triples.len()));
}

const PANIC_HANDLER: &str = "#[panic_handler] fn __verif_panic(_: &::core::panic::PanicInfo) -> ! { loop {} }";

/// Ok(true) = the crate made of `specs` needs a global allocator
fn link_needs_alloc(env: &Env, specs: &[EnumSpec]) -> Result<(bool, String), String> {
    let items: Vec<Item> = specs.iter().enumerate().map(|(i, s)| Item { spec: s.clone(), module: module_plain(s, Config::NoStd, i) }).collect();
    let mut cfg = CrateCfg::new(env, "C19", "A-no_std-link");
    cfg.id = "c19l".into();
    cfg.lib_only = true;
    cfg.with_vrt = false;
    cfg.cdylib = true;
    cfg.target_dir = Some(env.verif.join("target").join("c19a"));
    cfg.header = vec!["#![no_std]".into(), "#![allow(warnings)]".into(), PANIC_HANDLER.into()];
    cfg.strum_default_features = false;
    cfg.strum_features = vec!["derive".into()];
    let em = emit_crate(env, &cfg, &items, &BTreeSet::new()).map_err(|e| e.to_string())?;
    let b = cargo_build(env, &cfg, &em, false);
    if b.timed_out {
        return Err("link probe: cargo build watchdog".into());
    }
    if let Some(e) = b.foreign.iter().find(|e| e.message.contains("global memory allocator")) {
        return Ok((true, e.message.clone()));
    }
    if !b.success {
        let first = b.errors.first().map(|e| e.rendered.clone()).or_else(|| b.foreign.first().map(|e| e.rendered.clone())).unwrap_or(b.stderr_tail);
        return Err(format!("link probe failed for another reason: {}", first.lines().take(12).collect::<Vec<_>>().join("\n")));
    }
    Ok((false, String::new()))
}

/// the first program (by bisection) whose generated code pulls in an allocator, if any
fn link_probe(env: &Env, specs: &[EnumSpec]) -> Result<Option<(EnumSpec, String)>, String> {
    let (needs, msg) = link_needs_alloc(env, specs)?;
    if !needs {
        return Ok(None);
    }
    let mut set: Vec<EnumSpec> = specs.to_vec();
    while set.len() > 1 {
        let half = set.len() / 2;
        let first: Vec<EnumSpec> = set[..half].to_vec();
        if link_needs_alloc(env, &first)?.0 {
            set = first;
        } else {
            set = set[half..].to_vec();
        }
    }
    Ok(Some((set.remove(0), msg)))
}

/// replay: compile the one spec under the recorded configuration
pub fn replay(env: &Env, doc: &serde_json::Value) -> (i32, Outcome) {
    let mut out = crate::new_outcome();
    let spec: EnumSpec = serde_json::from_value(doc["spec"].clone()).expect("spec");
    let cfgk = match doc["profile"].as_str().unwrap_or("") {
        "A-no_std" => Config::NoStd,
        "B-renamed-crate" => Config::Renamed,
        _ => Config::Shadowed,
    };
    for nested in [0usize, 1, 2, 3, 4] {
        let items = vec![Item { spec: spec.clone(), module: module_plain(&spec, cfgk, nested) }];
        let mut cfg = CrateCfg::new(env, "C19", "single");
        cfg.id = format!("c19{}", &cfgk.tag()[..1].to_lowercase());
        cfg.lib_only = true;
        cfg.with_vrt = false;
        cfg.target_dir = Some(env.verif.join("target").join(format!("c19{}", &cfgk.tag()[..1].to_lowercase())));
        match cfgk {
            Config::NoStd => {
                cfg.header = vec!["#![no_std]".into(), "#![allow(warnings)]".into()];
                cfg.strum_default_features = false;
            }
            Config::Renamed => {
                cfg.header = vec!["#![allow(warnings)]".into(), "pub mod reexp { pub use strum_x as inner; }".into()];
                cfg.strum_dep_name = "strum_x".into();
                cfg.strum_features = vec!["derive".into(), "phf".into()];
            }
            Config::Shadowed => {
                cfg.strum_features = vec!["derive".into(), "phf".into()];
            }
        }
        let em = emit_crate(env, &cfg, &items, &BTreeSet::new()).expect("emit");
        let b = cargo_build(env, &cfg, &em, true);
        out.agg.evaluations += 1;
        if let (Config::NoStd, Some(e)) = (cfgk, b.foreign.iter().find(|e| e.rendered.contains(&format!("{}/src/", env.repo.join("strum").display())))) {
            out.violations.push(Violation {
                kind: "deps:A-no_std:strum-itself-does-not-build-without-std".into(),
                enum_name: spec.name.clone(),
                spec: Some(spec.clone()),
                detail: json!({"configuration": cfgk.tag(), "message": e.message, "rendered": e.rendered}),
                profile: cfgk.tag().to_string(),
            });
            break;
        }
        if b.timed_out || !b.foreign.is_empty() {
            out.inconclusive = Some("replay build problem".into());
        }
        if let Some(e) = b.errors.first() {
            out.violations.push(Violation {
                kind: format!("deps:{}:{}", cfgk.tag(), e.message.chars().take(60).collect::<String>()),
                enum_name: spec.name.clone(),
                spec: Some(spec.clone()),
                detail: json!({"configuration": cfgk.tag(), "message": e.message, "rendered": e.rendered}),
                profile: cfgk.tag().to_string(),
            });
            break;
        }
        if cfgk != Config::Renamed {
            break;
        }
    }
    if cfgk == Config::NoStd && out.violations.is_empty() && out.inconclusive.is_none() {
        out.agg.evaluations += 1;
        match link_needs_alloc(env, &[spec.clone()]) {
            Ok((true, msg)) => out.violations.push(Violation {
                kind: "deps:A-no_std:allocator-required".into(),
                enum_name: spec.name.clone(),
                spec: Some(spec.clone()),
                detail: json!({"configuration": "A-no_std", "message": msg, "step": "cdylib link without a global allocator"}),
                profile: "A-no_std".into(),
            }),
            Ok((false, _)) => {}
            Err(m) => out.inconclusive = Some(m),
        }
    }
    let code = if out.inconclusive.is_some() { 2 } else if !out.violations.is_empty() { 1 } else { 0 };
    (code, out)
}
