//! Table family: EnumTable. Checker for C10 (stateful, Vec model).

use crate::*;
use proptest::prelude::*;
use serde_json::json;

pub trait TGlue: Glue {
    type Tb: Clone + PartialEq;
    /// `Table::new(v0, v1, ..)` with one argument per enabled variant, in declaration order
    fn new_seq(vals: &[i64]) -> Self::Tb;
    fn filled(x: i64) -> Self::Tb;
    /// f receives the declaration index of the key
    fn from_closure(f: &dyn Fn(usize) -> i64) -> Self::Tb;
    fn transform(t: &Self::Tb, f: &dyn Fn(usize, i64) -> i64) -> Self::Tb;
    /// t[key with declaration index k]
    fn get(t: &Self::Tb, k: usize) -> i64;
    fn set(t: &mut Self::Tb, k: usize, v: i64);
    fn all(opts: &[Option<i64>]) -> Option<Self::Tb>;
    fn all_ok(rs: &[Result<i64, i64>]) -> Result<Self::Tb, i64>;
}

#[derive(Clone, Debug, PartialEq)]
pub enum TOp {
    Write(usize, i64),
    Snapshot,
    Compare,
}

impl TOp {
    fn show(&self) -> String {
        match self {
            TOp::Write(k, v) => format!("write({},{})", k, v),
            TOp::Snapshot => "snapshot".into(),
            TOp::Compare => "compare".into(),
        }
    }
    fn parse(s: &str) -> TOp {
        if s == "snapshot" {
            TOp::Snapshot
        } else if s == "compare" {
            TOp::Compare
        } else {
            let inner = &s[6..s.len() - 1];
            let mut it = inner.split(',');
            TOp::Write(it.next().unwrap().parse().unwrap(), it.next().unwrap().parse().unwrap())
        }
    }
}

struct TSt<T: Clone> {
    t: T,
    m: Vec<i64>,
    snap: Option<(T, Vec<i64>)>,
}

fn read_all<E: TGlue>(en: &[usize], t: &E::Tb) -> Result<Vec<i64>, String> {
    catch(|| en.iter().map(|&k| E::get(t, k)).collect())
}

/// en: declaration indices of enabled variants; ops address positions in `en`
fn apply<E: TGlue>(en: &[usize], st: &mut TSt<E::Tb>, op: &TOp) -> Result<(), (String, String, String)> {
    match op {
        TOp::Write(p, v) => {
            let p = p % en.len();
            if let Err(e) = catch(|| E::set(&mut st.t, en[p], *v)) {
                return Err(("table:write-panicked".into(), "no panic".into(), e));
            }
            st.m[p] = *v;
            match read_all::<E>(en, &st.t) {
                Ok(got) if got == st.m => {}
                Ok(got) => return Err(("table:read-after-write".into(), format!("{:?}", st.m), format!("{:?}", got))),
                Err(e) => return Err(("table:read-panicked".into(), format!("{:?}", st.m), e)),
            }
        }
        TOp::Snapshot => {
            st.snap = Some((st.t.clone(), st.m.clone()));
        }
        TOp::Compare => {
            if let Some((ts, ms)) = &st.snap {
                let eq = st.t == *ts;
                if eq != (st.m == *ms) {
                    return Err(("table:eq".into(), format!("== is {}", st.m == *ms), format!("== is {}", eq)));
                }
                // the snapshot itself is independent of later writes
                match read_all::<E>(en, ts) {
                    Ok(got) if &got == ms => {}
                    other => return Err(("table:clone-not-independent".into(), format!("{:?}", ms), format!("{:?}", other))),
                }
            }
        }
    }
    Ok(())
}

fn run_hist<E: TGlue>(en: &[usize], h: &[TOp]) -> Result<(), (String, String, String)> {
    let init: Vec<i64> = (0..en.len() as i64).map(|i| 50 + i).collect();
    let mut st: TSt<E::Tb> = TSt { t: E::new_seq(&init), m: init, snap: None };
    for op in h {
        apply::<E>(en, &mut st, op)?;
    }
    Ok(())
}

fn nontrivial_hist(h: &[TOp]) -> bool {
    let mut ws: Vec<(usize, i64)> = vec![];
    for o in h {
        if let TOp::Write(k, v) = o {
            ws.push((*k, *v));
        }
    }
    ws.iter().any(|a| ws.iter().any(|b| a.0 != b.0 && a.1 != b.1))
}

fn dfs<E: TGlue>(ctx: &mut Ctx, en: &[usize], alpha: &[TOp], st: &TSt<E::Tb>, h: &mut Vec<TOp>, depth: usize, count: &mut u64) -> bool {
    for op in alpha {
        let mut s2 = TSt { t: st.t.clone(), m: st.m.clone(), snap: st.snap.clone() };
        h.push(op.clone());
        *count += 1;
        if nontrivial_hist(h) {
            ctx.nontrivial(format!("{:?}", h).as_bytes());
        }
        if let Err((k, e, a)) = apply::<E>(en, &mut s2, op) {
            ctx.fail(&k, json!({"history": h.iter().map(|o| o.show()).collect::<Vec<_>>(), "n_enabled": en.len()}), e, a);
            h.pop();
            return false;
        }
        if h.len() < depth && !dfs::<E>(ctx, en, alpha, &s2, h, depth, count) {
            h.pop();
            return false;
        }
        h.pop();
    }
    true
}

pub fn c10<E: TGlue>(ctx: &mut Ctx) {
    let spec = ctx.spec;
    let en = spec.enabled_indices();
    let n = en.len();
    let mask: String = spec.variants.iter().map(|v| if v.disabled() { 'd' } else { 'E' }).collect();
    if let Some(r) = ctx.replay().cloned() {
        if let Some(hs) = r["history"].as_array() {
            let h: Vec<TOp> = hs.iter().map(|s| TOp::parse(s.as_str().unwrap())).collect();
            ctx.eval();
            if let Err((k, e, a)) = run_hist::<E>(&en, &h) {
                ctx.fail(&k, json!({"history": hs, "n_enabled": n}), e, a);
            }
            return;
        }
    }
    let inp = |what: &str| json!({"op": what, "mask": mask, "idents": spec.variants.iter().map(|v| v.ident.clone()).collect::<Vec<_>>()});
    // constructors
    let seq: Vec<i64> = (0..n as i64).map(|i| 10 + i).collect();
    ctx.eval();
    match catch(|| read_all::<E>(&en, &E::new_seq(&seq))) {
        Ok(Ok(got)) if got == seq => {}
        other => ctx.fail("table:new-order", inp("new(10, 11, ..)"), format!("{:?}", seq), format!("{:?}", other)),
    }
    ctx.eval();
    match read_all::<E>(&en, &E::filled(77)) {
        Ok(got) if got == vec![77; n] => {}
        other => ctx.fail("table:filled", inp("filled(77)"), format!("{:?}", vec![77; n]), format!("{:?}", other)),
    }
    ctx.eval();
    let log = std::cell::RefCell::new(Vec::<usize>::new());
    let f = |k: usize| {
        log.borrow_mut().push(k);
        1000 + 7 * k as i64
    };
    let want: Vec<i64> = en.iter().map(|&k| 1000 + 7 * k as i64).collect();
    match read_all::<E>(&en, &E::from_closure(&f)) {
        Ok(got) if got == want => {}
        other => ctx.fail("table:from_closure", inp("from_closure(k -> 1000 + 7 * index(k))"), format!("{:?}", want), format!("{:?}", other)),
    }
    if log.borrow().iter().any(|k| !en.contains(k)) {
        ctx.fail("table:from_closure-called-with-disabled", inp("from_closure"), format!("keys within {:?}", en), format!("{:?}", log.borrow()));
    }
    ctx.eval();
    let base = E::new_seq(&seq);
    let want: Vec<i64> = en.iter().enumerate().map(|(p, &k)| 100 * k as i64 + seq[p]).collect();
    match read_all::<E>(&en, &E::transform(&base, &|k, v| 100 * k as i64 + v)) {
        Ok(got) if got == want => {}
        other => ctx.fail("table:transform", inp("transform((k, v) -> 100 * index(k) + v)"), format!("{:?}", want), format!("{:?}", other)),
    }
    // transform leaves the source untouched
    if read_all::<E>(&en, &base) != Ok(seq.clone()) {
        ctx.fail("table:transform-mutated-source", inp("transform"), format!("{:?}", seq), format!("{:?}", read_all::<E>(&en, &base)));
    }
    // all(): every Some/None mask; all_ok(): every Ok/Err mask, first Err in declaration order
    // (for a large table: the empty mask, every single position, and pseudo-random masks)
    let masks: Vec<Vec<bool>> = if n <= 10 {
        (0..(1u64 << n)).map(|m| (0..n).map(|i| (m >> i) & 1 == 1).collect()).collect()
    } else {
        let mut v: Vec<Vec<bool>> = vec![vec![false; n]];
        for i in 0..n {
            let mut m = vec![false; n];
            m[i] = true;
            v.push(m);
        }
        let mut x = spec.hash64() | 1;
        for _ in 0..64 {
            v.push((0..n).map(|_| {
                x ^= x << 13;
                x ^= x >> 7;
                x ^= x << 17;
                x % 5 == 0
            }).collect());
        }
        v
    };
    let nm = masks.len() as u64;
    for (mi, mk) in masks.iter().enumerate() {
        ctx.eval();
        ctx.nontrivial(format!("{}/mask/{}", spec.name, mi).as_bytes());
        let m_is_empty = mk.iter().all(|b| !*b);
        let opts: Vec<Option<i64>> = (0..n).map(|i| if mk[i] { None } else { Some(20 + i as i64) }).collect();
        let want = if m_is_empty { Some(opts.iter().map(|o| o.unwrap()).collect::<Vec<_>>()) } else { None };
        let got = E::all(&opts).map(|t| read_all::<E>(&en, &t));
        let ok = match (&got, &want) {
            (None, None) => true,
            (Some(Ok(g)), Some(w)) => g == w,
            _ => false,
        };
        if !ok {
            ctx.fail("table:all", json!({"op": "all", "mask": mask, "options": format!("{:?}", opts)}), format!("{:?}", want), format!("{:?}", got));
        }
        let rs: Vec<Result<i64, i64>> = (0..n).map(|i| if mk[i] { Err(-(i as i64) - 1) } else { Ok(20 + i as i64) }).collect();
        let want_err = rs.iter().find_map(|r| r.err());
        let got = E::all_ok(&rs).map(|t| read_all::<E>(&en, &t));
        let ok = match (&got, want_err) {
            (Err(e), Some(w)) => *e == w,
            (Ok(Ok(g)), None) => g == &rs.iter().map(|r| r.unwrap()).collect::<Vec<_>>(),
            _ => false,
        };
        if !ok {
            ctx.fail("table:all_ok", json!({"op": "all_ok", "mask": mask, "results": format!("{:?}", rs)}), format!("first Err in declaration order: {:?}", want_err), format!("{:?}", got));
        }
    }
    if n <= 10 {
        ctx.exhaustive("all Some/None and Ok/Err masks (2^n each)", 2 * nm);
    }
    // one write to each key in turn: exactly that slot changes
    for p in 0..n {
        ctx.eval();
        let mut t = E::new_seq(&seq);
        let mut want = seq.clone();
        want[p] = 999;
        let got = catch(|| {
            E::set(&mut t, en[p], 999);
            read_all::<E>(&en, &t)
        });
        match got {
            Ok(Ok(g)) if g == want => {}
            other => {
                ctx.fail("table:single-write", inp(&format!("table[{}] = 999", spec.variants[en[p]].ident)), format!("only slot {} changes", p), format!("{:?}", other).chars().take(300).collect());
                break;
            }
        }
    }
    ctx.exhaustive("a single write to every key, whole table read back", n as u64);
    // disabled keys panic
    for (k, v) in spec.variants.iter().enumerate() {
        if v.disabled() {
            ctx.eval();
            let t = E::new_seq(&seq);
            if catch(|| E::get(&t, k)).is_ok() {
                ctx.fail("table:index-disabled-no-panic", inp(&format!("table[{}]", v.ident)), "panic".into(), "returned a value".into());
            }
            let mut t2 = E::new_seq(&seq);
            if catch(|| E::set(&mut t2, k, 5)).is_ok() {
                ctx.fail("table:index_mut-disabled-no-panic", inp(&format!("table[{}] = 5", v.ident)), "panic".into(), "write accepted".into());
            }
        }
    }
    if ctx.failed() {
        return;
    }
    // exhaustive histories for small n
    if n <= ctx.param("exhaustive_max_n", 4) as usize {
        let mut alpha: Vec<TOp> = Vec::new();
        for p in 0..n {
            for v in [0i64, 1, 2] {
                alpha.push(TOp::Write(p, v));
            }
        }
        alpha.push(TOp::Snapshot);
        alpha.push(TOp::Compare);
        let depth = ctx.param("depth", 4) as usize;
        let init: Vec<i64> = (0..n as i64).map(|i| 50 + i).collect();
        let st: TSt<E::Tb> = TSt { t: E::new_seq(&init), m: init, snap: None };
        let mut h = Vec::new();
        let mut count = 0;
        dfs::<E>(ctx, &en, &alpha, &st, &mut h, depth, &mut count);
        ctx.evals(count);
        ctx.exhaustive(&format!("all write/snapshot/compare histories up to length {} over all keys x values {{0,1,2}} (n <= 4)", depth), count);
        if ctx.failed() {
            return;
        }
    }
    // long random histories
    let strat = proptest::collection::vec(prop_oneof![8 => (0..n.max(1), -3i64..1000).prop_map(|(k, v)| TOp::Write(k, v)), 1 => Just(TOp::Snapshot), 2 => Just(TOp::Compare)], 0..48).boxed();
    let seed = ctx.seed;
    let cases = ctx.param("cases", 300) as u32;
    let mut first: Option<Vec<TOp>> = None;
    let shrunk = {
        let mut f = |h: &Vec<TOp>, counting: bool| -> Option<String> {
            if counting {
                ctx.eval();
                if nontrivial_hist(h) {
                    ctx.nontrivial(format!("{:?}", h).as_bytes());
                }
                if first.is_none() && h.len() > 4 {
                    first = Some(h.clone());
                }
            }
            run_hist::<E>(&en, h).err().map(|x| x.0)
        };
        prop_run(seed, cases, &strat, &mut f)
    };
    if let Some(h) = first {
        ctx.sample(json!({"enum": spec.name, "mask": mask, "history": h.iter().map(|o| o.show()).collect::<Vec<_>>()}));
    }
    if let Some(h) = shrunk {
        if let Err((k, e, a)) = run_hist::<E>(&en, &h) {
            ctx.fail(&k, json!({"history": h.iter().map(|o| o.show()).collect::<Vec<_>>(), "n_enabled": n, "shrunk": true}), e, a);
        }
    }
}
