//! Shape family: EnumIs / EnumTryAs. Checker for C13.

use crate::*;
use serde_json::json;
use vmodel::spec::Kind;

pub trait ShGlue: Glue {
    /// is_<variant j>(); None when no such method is expected (disabled variant)
    fn is(&self, j: usize) -> Option<bool>;
    /// try_as_<variant j>(): None when no such method is expected; Some(None) = method returned None
    fn try_as(self, j: usize) -> Option<Option<Vec<String>>>;
    /// try_as_<j>_ref(): (renderings, addresses of the referenced values)
    fn try_as_ref(&self, j: usize) -> Option<Option<(Vec<String>, Vec<usize>)>>;
    /// try_as_<j>_mut(): overwrites every returned field with fresh draws, returns the new renderings
    fn try_as_mut_set(&mut self, j: usize, d: &mut Draw) -> Option<Option<Vec<String>>>;
    /// addresses of the payload fields, by a hand-written match
    fn field_addrs(&self) -> Vec<usize>;
}

pub fn c13<E: ShGlue>(ctx: &mut Ctx) {
    let spec = ctx.spec;
    let n = spec.variants.len();
    let draws = ctx.param("draws", 16);
    let interesting = {
        let tuple_sigs: Vec<Vec<vmodel::spec::FieldTy>> =
            spec.variants.iter().filter(|v| v.kind == Kind::Tuple).map(|v| v.fields.iter().map(|f| f.ty).collect()).collect();
        let same_sig = (0..tuple_sigs.len()).any(|a| (a + 1..tuple_sigs.len()).any(|b| tuple_sigs[a] == tuple_sigs[b] && !tuple_sigs[a].is_empty()));
        let dup_ty = tuple_sigs.iter().any(|s| (0..s.len()).any(|a| (a + 1..s.len()).any(|b| s[a] == s[b])));
        same_sig || dup_ty
    };
    let only = ctx.replay().map(|r| (r["i"].as_u64().unwrap() as usize, r["k"].as_u64().unwrap()));
    for i in 0..n {
        for k in 0..draws {
            if let Some((oi, ok)) = only {
                if oi != i || ok != k {
                    continue;
                }
            }
            let dv: Vec<u64> = (0..6).map(|j| vmodel::derive_seed(ctx.seed, "shape", i as u64 * 1000 + k, j)).collect();
            let mk = || E::make(i, &mut Draw::new(dv.clone()));
            let e = mk();
            let fields = e.fields();
            let vi = &spec.variants[i];
            for j in 0..n {
                let vj = &spec.variants[j];
                let input = json!({"i": i, "k": k, "value_variant": vi.ident, "method_variant": vj.ident, "payload": fields});
                // predicates
                match e.is(j) {
                    Some(b) => {
                        ctx.eval();
                        if k == 0 && interesting {
                            ctx.nontrivial(format!("{}/is/{}/{}", spec.name, i, j).as_bytes());
                        }
                        let want = i == j && !vi.disabled() && !vj.disabled();
                        if b != want {
                            ctx.fail("is-predicate", input.clone(), format!("{}", want), format!("{}", b));
                        }
                    }
                    None => {
                        if !vj.disabled() {
                            panic!("glue: is_ not exposed for enabled variant");
                        }
                    }
                }
                if vj.kind != Kind::Tuple || vj.disabled() {
                    continue;
                }
                let want_some = i == j;
                // by value
                ctx.eval();
                if interesting {
                    ctx.nontrivial(format!("{}/try_as/{}/{}/{}", spec.name, i, j, k).as_bytes());
                }
                match mk().try_as(j) {
                    Some(got) => {
                        let want = if want_some { Some(fields.clone()) } else { None };
                        if got != want {
                            ctx.fail("try_as-by-value", input.clone(), format!("{:?}", want), format!("{:?}", got));
                        }
                    }
                    None => panic!("glue: try_as not exposed"),
                }
                // by reference
                ctx.eval();
                match e.try_as_ref(j) {
                    Some(got) => match (got, want_some) {
                        (None, false) => {}
                        (Some((r, addrs)), true) => {
                            if r != fields {
                                ctx.fail("try_as-ref-values", input.clone(), format!("{:?}", fields), format!("{:?}", r));
                            } else if addrs != e.field_addrs() {
                                ctx.fail("try_as-ref-not-the-fields", input.clone(), "references into the value itself, in field order".into(), "references to other locations".into());
                            }
                        }
                        (g, _) => ctx.fail("try_as-ref-presence", input.clone(), format!("Some: {}", want_some), format!("{:?}", g.map(|x| x.0))),
                    },
                    None => panic!("glue: try_as_ref not exposed"),
                }
                // by mutable reference: writes land in e, in order, and nowhere else
                ctx.eval();
                let mut m = mk();
                let mut d2 = Draw::new(dv.iter().map(|x| x.wrapping_mul(31).wrapping_add(7)).collect());
                match m.try_as_mut_set(j, &mut d2) {
                    Some(got) => match (got, want_some) {
                        (None, false) => {
                            if m.fields() != fields || m.idx() != i {
                                ctx.fail("try_as-mut-changed-other-variant", input.clone(), format!("{:?}", fields), format!("{:?}", m.fields()));
                            }
                        }
                        (Some(newv), true) => {
                            if m.fields() != newv || m.idx() != i {
                                ctx.fail("try_as-mut-write-not-visible", input.clone(), format!("{:?}", newv), format!("{:?}", m.fields()));
                            }
                        }
                        (g, _) => ctx.fail("try_as-mut-presence", input.clone(), format!("Some: {}", want_some), format!("{:?}", g)),
                    },
                    None => panic!("glue: try_as_mut not exposed"),
                }
            }
            if k == 0 && i == 0 {
                ctx.sample(json!({"enum": spec.name, "variants": spec.variants.iter().map(|v| format!("{}{:?}", v.ident, v.fields.iter().map(|f| f.ty).collect::<Vec<_>>())).collect::<Vec<_>>(),
                    "methods": spec.variants.iter().filter(|v| !v.disabled()).map(|v| format!("is_{}", vmodel::model::snake_method(&v.ident))).collect::<Vec<_>>()}));
            }
        }
    }
    ctx.exhaustive("value variant x method matrix (all pairs)", (n * n) as u64);
}
