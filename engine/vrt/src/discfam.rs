//! Discriminants family: EnumDiscriminants. Checker for C09.

use crate::*;
use serde_json::json;
use vmodel::model;

pub trait DGlue: Glue {
    /// index (by a harness-written exhaustive match) of `D::from(&e)`
    fn d_of_ref(&self) -> usize;
    fn d_of_val(self) -> usize;
    /// IntoDiscriminant::discriminant, when the impl is expected to exist
    fn d_of_trait(&self) -> Option<usize> {
        None
    }
    /// `D::<variant j> as R`
    fn d_int(j: usize) -> i128;
    /// e's own discriminant (cast for field-less enums, pointer read for primitive-repr enums)
    fn e_int(&self) -> Option<i128> {
        None
    }
    /// size_of::<D>() and size_of::<R>() when a repr is given
    fn d_sizes() -> Option<(usize, usize)> {
        None
    }
    /// D::iter() as indices
    fn d_iter() -> Option<Vec<usize>> {
        None
    }
    fn d_from_str(_s: &str) -> Option<Option<usize>> {
        None
    }
    fn d_display(_j: usize) -> Option<String> {
        None
    }
    fn d_names() -> Option<Vec<String>> {
        None
    }
    fn d_from_repr(_d: i128) -> Option<Option<usize>> {
        None
    }
    /// index of `D::default()` when `Default` was requested for D
    fn d_default() -> Option<usize> {
        None
    }
}

pub fn c09<E: DGlue>(ctx: &mut Ctx) {
    let spec = ctx.spec;
    let n = spec.variants.len();
    let ds = model::discs(spec);
    let opts = spec.disc_opts.clone().unwrap_or_default();
    let draws = ctx.param("draws", 8);
    let interesting = spec.variants.iter().any(|v| v.kind != vmodel::spec::Kind::Unit)
        && (spec.variants.iter().any(|v| v.disc.is_some()) || spec.has_generics() || !opts.passthrough.is_empty() || spec.variants.iter().any(|v| !v.disc_passthrough.is_empty()));
    // expected names on D (pass-through strum attributes only; E's own #[strum] must not leak)
    let pt_all = opts.passthrough.join(", ");
    let grab = |key: &str| -> Option<String> {
        let pat = format!("{} = \"", key);
        pt_all.find(&pat).map(|i| {
            let rest = &pt_all[i + pat.len()..];
            rest[..rest.find('"').unwrap()].to_string()
        })
    };
    let pt_style: Option<String> = grab("serialize_all");
    let pt_prefix: String = grab("prefix").unwrap_or_default();
    let pt_ci = pt_all.contains("ascii_case_insensitive");
    // pass-through spellings of a variant (every #[strum_discriminants(strum(..))] attribute counts)
    let pt_of = |j: usize, key: &str| -> Vec<String> {
        let pat = format!("strum({} = \"", key);
        spec.variants[j].disc_passthrough.iter().filter_map(|p| p.strip_prefix(pat.as_str()).and_then(|r| r.strip_suffix("\")")).map(|s| s.to_string())).collect()
    };
    // all names accepted by from_str
    let d_parse_all = |j: usize| -> Vec<String> {
        let mut v = pt_of(j, "serialize");
        v.extend(pt_of(j, "to_string"));
        if v.is_empty() {
            v.push(model::case(&spec.variants[j].ident, pt_style.as_deref()));
        }
        v
    };
    let d_parse = |j: usize| -> String { d_parse_all(j)[0].clone() };
    // name printed by Display / listed by VariantNames: to_string, else longest serialize, else cased ident
    let d_name = |j: usize| -> String {
        let base = pt_of(j, "to_string").into_iter().next().unwrap_or_else(|| {
            let sers = pt_of(j, "serialize");
            sers.iter().max_by_key(|s| s.len()).cloned().unwrap_or_else(|| model::case(&spec.variants[j].ident, pt_style.as_deref()))
        });
        format!("{}{}", pt_prefix, base)
    };
    for i in 0..n {
        for k in 0..draws {
            let dv: Vec<u64> = (0..6).map(|j| vmodel::derive_seed(ctx.seed, "disc", i as u64 * 1000 + k, j)).collect();
            let mk = || E::make(i, &mut Draw::new(dv.clone()));
            let e = mk();
            let input = json!({"variant": i, "ident": spec.variants[i].ident, "payload": e.fields()});
            ctx.evals(3);
            if interesting {
                ctx.nontrivial(format!("{}/{}/{}", spec.name, i, k).as_bytes());
            }
            let a = e.d_of_ref();
            let b = mk().d_of_val();
            if a != i {
                ctx.fail("disc:from-ref", input.clone(), format!("discriminant variant #{}", i), format!("#{}", a));
            }
            if b != i {
                ctx.fail("disc:from-value", input.clone(), format!("discriminant variant #{}", i), format!("#{}", b));
            }
            if let Some(t) = e.d_of_trait() {
                if t != i {
                    ctx.fail("disc:into-discriminant", input.clone(), format!("discriminant variant #{}", i), format!("#{}", t));
                }
            }
            if let Some(x) = e.e_int() {
                ctx.eval();
                if x != ds[i] {
                    panic!("model discriminant {} != rustc {} for variant #{} of {}", ds[i], x, i, spec.name);
                }
                if E::d_int(a) != x {
                    ctx.fail("disc:integer-differs-from-enum", input.clone(), format!("{}", x), format!("{}", E::d_int(a)));
                }
            }
        }
        ctx.eval();
        if E::d_int(i) != ds[i] {
            ctx.fail("disc:integer-value", json!({"variant": i, "ident": spec.variants[i].ident}), format!("{}", ds[i]), format!("{}", E::d_int(i)));
        }
    }
    if let Some((sd, sr)) = E::d_sizes() {
        ctx.eval();
        if sd != sr {
            ctx.fail("disc:repr-size", json!({"repr": spec.repr}), format!("size_of::<D>() == {}", sr), format!("{}", sd));
        }
    }
    // requested derives take effect on D
    if let Some(it) = E::d_iter() {
        ctx.eval();
        ctx.class("derive:EnumIter");
        let want: Vec<usize> = (0..n).collect();
        if it != want {
            ctx.fail("disc:derive-EnumIter", json!({"derive": "EnumIter"}), format!("{:?}", want), format!("{:?}", it));
        }
    }
    if let Some(d) = E::d_default() {
        ctx.eval();
        ctx.class("derive:Default");
        // the variant-level pass-through `#[strum_discriminants(default)]` marks it
        let want = spec.variants.iter().position(|v| v.disc_passthrough.iter().any(|p| p == "default"));
        if Some(d) != want {
            ctx.fail("disc:derive-Default", json!({"derive": "Default"}), format!("{:?}", want), format!("Some({})", d));
        }
    }
    if let Some(names) = E::d_names() {
        ctx.eval();
        ctx.class("derive:VariantNames");
        let want: Vec<String> = (0..n).map(|j| d_name(j)).collect();
        if names != want {
            ctx.fail("disc:derive-VariantNames", json!({"derive": "VariantNames", "passthrough": opts.passthrough}), format!("{:?}", want), format!("{:?}", names));
        }
    }
    for j in 0..n {
        if let Some(s) = E::d_display(j) {
            ctx.eval();
            ctx.class("derive:Display");
            if s != d_name(j) {
                ctx.fail("disc:derive-Display", json!({"derive": "Display", "variant": j}), format!("{:?}", d_name(j)), format!("{:?}", s));
            }
        }
        if E::d_from_str("").is_some() {
            for name in d_parse_all(j) {
                let r = E::d_from_str(&name).unwrap();
                ctx.eval();
                ctx.class("derive:EnumString");
                if r != Some(j) {
                    ctx.fail("disc:derive-EnumString", json!({"derive": "EnumString", "variant": j, "input": name, "passthrough": opts.passthrough, "variant_passthrough": spec.variants[j].disc_passthrough}), format!("Some({})", j), format!("{:?}", r));
                }
            }
            // a passed-through ascii_case_insensitive takes effect (and its absence too)
            let flipped = crate::inputs::flip(&d_parse(j), 0b1011);
            if flipped != d_parse(j) && (0..n).all(|x| x == j || !model::ascii_fold_eq(&d_parse(x), &flipped)) {
                ctx.eval();
                let want = if pt_ci { Some(j) } else { None };
                let got = E::d_from_str(&flipped).unwrap();
                if got != want {
                    ctx.fail("disc:passthrough-case-insensitivity", json!({"derive": "EnumString", "input": flipped, "passthrough": opts.passthrough}), format!("{:?}", want), format!("{:?}", got));
                }
            }
            // spellings that only exist on E (its own #[strum(serialize)]) must not leak to D
            for s in spec.variants[j].serialize() {
                if (0..n).all(|x| d_parse(x) != s) {
                    ctx.eval();
                    if let Some(Some(x)) = E::d_from_str(s) {
                        ctx.fail("disc:strum-attribute-leaked", json!({"derive": "EnumString", "input": s}), "None".into(), format!("Some({})", x));
                    }
                }
            }
        }
        if let Some(r) = E::d_from_repr(ds[j]) {
            ctx.eval();
            ctx.class("derive:FromRepr");
            if r != Some(j) {
                ctx.fail("disc:derive-FromRepr", json!({"derive": "FromRepr", "d": ds[j].to_string()}), format!("Some({})", j), format!("{:?}", r));
            }
        }
    }
    ctx.class(&format!("vis={}", opts.vis.clone().unwrap_or_else(|| "(not given)".into())));
    ctx.sample(json!({"enum": spec.name, "repr": spec.repr, "discriminants_options": opts, "variants": spec.variants.iter().map(|v| format!("{}{:?}{}", v.ident, v.fields.iter().map(|f| f.ty).collect::<Vec<_>>(), v.disc.as_ref().map(|d| format!(" = {}", d.text)).unwrap_or_default())).collect::<Vec<_>>()}));
}
