//! (to be filled)
