//! Format-spec grid (DESIGN §5.3): fill / alignment / flags are literals, width and precision run-time.

use std::fmt::Display;

pub const SPECS: [&str; 22] = [
    "", "<", "^", ">", "*<", "*^", "*>", "0<", "0^", "0>", "é<", "é^", "é>", "+", "#", "0", "+<", "#>", "-^", "_>", " <", "x^",
];
pub const WIDTHS: usize = 21; // none, 0..=16, 33, 64, 100
const WIDE: [usize; 3] = [33, 64, 100];
pub const PRECS: usize = 10; // none, 0..=8

macro_rules! arms {
    ($t:expr, $si:expr, $w:expr, $p:expr; $($i:literal => $s:literal),*) => {
        match $si {
            $($i => match ($w, $p) {
                (None, None) => format!(concat!("{:", $s, "}"), $t),
                (None, Some(p)) => format!(concat!("{:", $s, ".p$}"), $t, p = p),
                (Some(w), None) => format!(concat!("{:", $s, "w$}"), $t, w = w),
                (Some(w), Some(p)) => format!(concat!("{:", $s, "w$.p$}"), $t, w = w, p = p),
            },)*
            _ => unreachable!(),
        }
    };
}

pub fn render(t: &dyn Display, si: usize, w: Option<usize>, p: Option<usize>) -> String {
    arms!(t, si, w, p;
        0 => "", 1 => "<", 2 => "^", 3 => ">", 4 => "*<", 5 => "*^", 6 => "*>", 7 => "0<", 8 => "0^", 9 => "0>",
        10 => "é<", 11 => "é^", 12 => "é>", 13 => "+", 14 => "#", 15 => "0", 16 => "+<", 17 => "#>", 18 => "-^",
        19 => "_>", 20 => " <", 21 => "x^")
}

pub fn cells() -> usize {
    SPECS.len() * WIDTHS * PRECS
}

pub fn cell(k: usize) -> (usize, Option<usize>, Option<usize>) {
    let si = k / (WIDTHS * PRECS);
    let w = (k / PRECS) % WIDTHS;
    let p = k % PRECS;
    let width = if w == 0 {
        None
    } else if w <= 17 {
        Some(w - 1)
    } else {
        Some(WIDE[w - 18])
    };
    (si, width, if p == 0 { None } else { Some(p - 1) })
}

pub fn label(k: usize) -> String {
    let (si, w, p) = cell(k);
    let w = w.map(|w| w.to_string()).unwrap_or_default();
    match p {
        None => format!("{{:{}{}}}", SPECS[si], w),
        Some(p) => format!("{{:{}{}.{}}}", SPECS[si], w, p),
    }
}

/// compare two displayable values over the whole grid; returns (cells compared, padded-or-truncated cells,
/// first mismatch as (label, expected, actual))
pub fn compare(actual: &dyn Display, reference: &dyn Display, ref_chars: usize) -> (u64, u64, Option<(String, String, String)>) {
    let mut nt = 0;
    for k in 0..cells() {
        let (si, w, p) = cell(k);
        let a = match crate::catch(|| render(actual, si, w, p)) {
            Ok(a) => a,
            Err(e) => return (k as u64, nt, Some((label(k), "no panic".into(), format!("panicked: {}", e)))),
        };
        let r = render(reference, si, w, p);
        if w.map(|w| w > ref_chars).unwrap_or(false) || p.map(|p| p < ref_chars).unwrap_or(false) {
            nt += 1;
        }
        if a != r {
            return (k as u64 + 1, nt, Some((label(k), r, a)));
        }
    }
    (cells() as u64, nt, None)
}
