//! Meta family: EnumMessage / EnumProperty. Checkers for C14 C15.

use crate::strfam::SGlue;
use crate::*;
use proptest::prelude::*;
use serde_json::json;
use vmodel::model;
use vmodel::spec::PropVal;

pub fn c14<E: SGlue>(ctx: &mut Ctx) {
    let spec = ctx.spec;
    for (i, v) in spec.variants.iter().enumerate() {
        let val = E::make(i, &mut Draw::new(vec![3, 1, 4, 1, 5]));
        let input = json!({"variant": i, "ident": v.ident, "disabled": v.disabled(), "docs": v.docs.iter().map(|d| d.text.clone()).collect::<Vec<_>>()});
        let nontrivial = v.docs.len() >= 2
            || v.docs.iter().any(|d| d.text.starts_with("  ") || d.text.starts_with('\t') || !d.text.starts_with(' '))
            || (v.message().is_some() && v.detailed().is_some() && v.has_explicit_name())
            || (v.disabled() && (v.message().is_some() || v.detailed().is_some() || !v.docs.is_empty()));
        let checks: [(&str, Option<String>, Option<Option<&'static str>>); 3] = [
            ("get_message", model::message(v), val.message()),
            ("get_detailed_message", model::detailed(v), val.detailed()),
            ("get_documentation", model::doc(v), val.documentation()),
        ];
        for (name, want, got) in checks {
            ctx.eval();
            ctx.class(name);
            if nontrivial {
                ctx.nontrivial(format!("{}/{}/{}", spec.name, i, name).as_bytes());
            }
            let got = got.expect("glue: EnumMessage").map(|s| s.to_string());
            if got != want {
                ctx.fail(&format!("message:{}", name), input.clone(), format!("{:?}", want), format!("{:?}", got));
            }
        }
        ctx.eval();
        ctx.class("get_serializations");
        let mut want = model::spellings(spec, v);
        let mut got: Vec<String> = val.serializations().expect("glue").iter().map(|s| s.to_string()).collect();
        want.sort();
        got.sort();
        if nontrivial {
            ctx.nontrivial(format!("{}/{}/ser", spec.name, i).as_bytes());
        }
        if want != got {
            ctx.fail("message:get_serializations", input.clone(), format!("{:?}", want), format!("{:?}", got));
        }
        if !v.docs.is_empty() {
            ctx.sample(json!({"enum": spec.name, "variant": v.ident, "docs": v.docs.iter().map(|d| (format!("{:?}", d.style), d.text.clone())).collect::<Vec<_>>(), "expected_documentation": model::doc(v)}));
        }
    }
}

fn key_variations(k: &str) -> Vec<String> {
    let mut v = vec![
        k.to_string(),
        k.to_uppercase(),
        k.to_lowercase(),
        format!("{} ", k),
        format!(" {}", k),
        format!("{}x", k),
        format!("r#{}", k),
        format!("_{}", k),
    ];
    let cs: Vec<char> = k.chars().collect();
    if cs.len() > 1 {
        v.push(cs[..cs.len() - 1].iter().collect());
        v.push(cs[1..].iter().collect());
    }
    if !k.is_ascii() {
        // same number of bytes / of characters as a non-ASCII key
        v.push("x".repeat(k.len()));
        v.push("x".repeat(cs.len()));
    }
    v
}

pub fn c15<E: SGlue>(ctx: &mut Ctx) {
    let spec = ctx.spec;
    // every key declared anywhere in the enum
    let mut keys: Vec<String> = spec.variants.iter().flat_map(|v| v.props().into_iter().map(|(k, _)| k.clone())).collect();
    keys.sort();
    keys.dedup();
    let mut queries: Vec<(String, &'static str)> = Vec::new();
    for k in &keys {
        queries.push((k.clone(), "declared-key"));
        for kv in key_variations(k) {
            if !keys.contains(&kv) {
                queries.push((kv, "key-variation"));
            }
        }
    }
    queries.push((String::new(), "empty"));
    let eval = |i: usize, k: &str| -> Option<(String, String, String)> {
        let v = &spec.variants[i];
        let val = E::make(i, &mut Draw::new(vec![9, 9, 9]));
        let s = val.get_str(k).expect("glue: EnumProperty").map(|s| s.to_string());
        if s != model::prop_str(v, k) {
            return Some(("props:get_str".into(), format!("{:?}", model::prop_str(v, k)), format!("{:?}", s)));
        }
        let n = val.get_int(k).unwrap();
        if n != model::prop_int(v, k) {
            return Some(("props:get_int".into(), format!("{:?}", model::prop_int(v, k)), format!("{:?}", n)));
        }
        let b = val.get_bool(k).unwrap();
        if b != model::prop_bool(v, k) {
            return Some(("props:get_bool".into(), format!("{:?}", model::prop_bool(v, k)), format!("{:?}", b)));
        }
        None
    };
    if let Some(r) = ctx.replay() {
        let i = r["variant"].as_u64().unwrap() as usize;
        let k = r["key"].as_str().unwrap().to_string();
        ctx.eval();
        if let Some((kind, e, a)) = eval(i, &k) {
            ctx.fail(&kind, json!({"variant": i, "key": k}), e, a);
        }
        return;
    }
    for (i, v) in spec.variants.iter().enumerate() {
        for (k, class) in &queries {
            ctx.evals(3);
            ctx.class(class);
            // non-trivial: key declared in the enum but for another variant or another type
            let declared_here: Vec<&PropVal> = v.props().into_iter().filter(|(kk, _)| kk == k).map(|(_, pv)| pv).collect();
            let n_types = {
                let mut t = vec![];
                for pv in &declared_here {
                    t.push(std::mem::discriminant(*pv));
                }
                t.dedup();
                t.len()
            };
            if *class == "declared-key" && (declared_here.is_empty() || n_types < 3) {
                ctx.nontrivial(format!("{}/{}/{}", spec.name, i, k).as_bytes());
            }
            if let Some((kind, e, a)) = eval(i, k) {
                ctx.fail(&kind, json!({"variant": i, "ident": v.ident, "key": k, "class": class, "disabled": v.disabled()}), e, a);
            }
        }
    }
    ctx.exhaustive("every key declared anywhere in the enum x every variant x 3 getters", (keys.len() * spec.variants.len() * 3) as u64);
    // generated keys
    let n = spec.variants.len();
    if n > 0 {
        let strat = (0..n, prop_oneof![2 => "[a-zA-Z_]{0,8}".boxed(), 1 => "\\PC{0,6}".boxed()]).boxed();
        let seed = ctx.seed;
        let cases = ctx.param("cases", 200) as u32;
        let shrunk = {
            let mut f = |x: &(usize, String), counting: bool| -> Option<String> {
                if counting {
                    ctx.evals(3);
                    ctx.class("generated-key");
                }
                eval(x.0, &x.1).map(|m| m.0)
            };
            prop_run(seed, cases, &strat, &mut f)
        };
        if let Some((i, k)) = shrunk {
            if let Some((kind, e, a)) = eval(i, &k) {
                ctx.fail(&kind, json!({"variant": i, "key": k, "class": "generated-key", "shrunk": true}), e, a);
            }
        }
    }
    ctx.sample(json!({"enum": spec.name, "keys": keys, "props": spec.variants.iter().map(|v| (v.ident.clone(), v.disabled(), v.props().iter().map(|(k, pv)| format!("{} = {:?}", k, pv)).collect::<Vec<_>>())).collect::<Vec<_>>()}));
}
