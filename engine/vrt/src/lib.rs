//! Runtime library linked into every generated corpus binary: payload types, rendering,
//! glue traits, report types, shard main, and the per-property generic checkers.

pub use vmodel;
use serde::{Deserialize, Serialize};
use std::collections::{BTreeMap, HashSet};
use std::fmt;
use vmodel::spec::EnumSpec;

pub mod fmtgrid;
pub mod inputs;
pub mod strfam;
pub mod iterfam;
pub mod reprfam;
pub mod shapefam;
pub mod metafam;
pub mod tablefam;
pub mod discfam;

// ---------------------------------------------------------------------------------------------
// payload types

#[derive(Debug, Clone, PartialEq, Eq, Hash, PartialOrd, Ord)]
pub struct Pay(pub u8);
impl Default for Pay {
    fn default() -> Self {
        Pay(7)
    }
}

/// From<&str> wrapper for default variants; Display/AsRef<str> forward to the inner string.
#[derive(Debug, Clone, PartialEq, Eq, Default)]
pub struct Wrap(pub String);
impl From<&str> for Wrap {
    fn from(s: &str) -> Self {
        Wrap(s.to_string())
    }
}
impl fmt::Display for Wrap {
    fn fmt(&self, f: &mut fmt::Formatter) -> fmt::Result {
        fmt::Display::fmt(&self.0, f)
    }
}
impl AsRef<str> for Wrap {
    fn as_ref(&self) -> &str {
        &self.0
    }
}

/// Display prints the formatter state it was called with.
#[derive(Debug, Clone, PartialEq, Eq, Default)]
pub struct Spy;
impl fmt::Display for Spy {
    fn fmt(&self, f: &mut fmt::Formatter) -> fmt::Result {
        let al = match f.align() {
            None => "n",
            Some(fmt::Alignment::Left) => "l",
            Some(fmt::Alignment::Right) => "r",
            Some(fmt::Alignment::Center) => "c",
        };
        let s = format!(
            "spy[w={:?} p={:?} fill={:?} al={} plus={} alt={} zero={}]",
            f.width(),
            f.precision(),
            f.fill(),
            al,
            f.sign_plus(),
            f.alternate(),
            f.sign_aware_zero_pad()
        );
        f.write_str(&s)
    }
}

/// hand-written (not derived) nested enum for transparent variants
#[derive(Debug, Clone, Copy, PartialEq, Eq)]
pub enum Inner {
    Alpha,
    BetaGamma,
}
impl Default for Inner {
    fn default() -> Self {
        Inner::Alpha
    }
}
impl Inner {
    pub fn name(&self) -> &'static str {
        match self {
            Inner::Alpha => "inner-alpha",
            Inner::BetaGamma => "Inner Βγ",
        }
    }
}
impl fmt::Display for Inner {
    fn fmt(&self, f: &mut fmt::Formatter) -> fmt::Result {
        f.pad(self.name())
    }
}
impl AsRef<str> for Inner {
    fn as_ref(&self) -> &str {
        self.name()
    }
}
impl From<Inner> for &'static str {
    fn from(i: Inner) -> &'static str {
        i.name()
    }
}
impl From<&Inner> for &'static str {
    fn from(i: &Inner) -> &'static str {
        i.name()
    }
}

/// neither Default nor Clone
#[derive(Debug, PartialEq, Eq)]
pub struct NoDef(pub u16);

/// !Send + !Sync, Default
#[derive(Debug, Default, Clone)]
pub struct NotSend(pub std::rc::Rc<u8>);

/// custom parse error (C18)
#[derive(Debug, Clone, PartialEq, Eq)]
pub struct MyErr(pub String);

// ---------------------------------------------------------------------------------------------
// rendering of payload fields

pub trait R {
    fn r(&self) -> String;
}
macro_rules! r_debug {
    ($($t:ty),*) => { $( impl R for $t { fn r(&self) -> String { format!("{:?}", self) } } )* };
}
r_debug!(u8, i32, u64, bool, char, Option<u16>, Vec<u8>, (), [u8; 2], Pay, Inner, NoDef, u16, i64, usize);
macro_rules! r_str {
    ($($t:ty),*) => { $( impl R for $t { fn r(&self) -> String { format!("s:{}", &**self) } } )* };
}
r_str!(String, Box<str>, std::rc::Rc<str>, std::sync::Arc<str>);
impl<'a> R for &'a str {
    fn r(&self) -> String {
        format!("s:{}", self)
    }
}
impl R for Wrap {
    fn r(&self) -> String {
        format!("Wrap(s:{})", self.0)
    }
}
impl R for Spy {
    fn r(&self) -> String {
        "Spy".into()
    }
}
impl R for NotSend {
    fn r(&self) -> String {
        format!("NotSend({})", self.0)
    }
}
impl<X> R for std::marker::PhantomData<X> {
    fn r(&self) -> String {
        "PhantomData".into()
    }
}
impl<'a, X: R + ?Sized> R for &'a X {
    fn r(&self) -> String {
        (**self).r()
    }
}
impl<'a, X: R + ?Sized> R for &'a mut X {
    fn r(&self) -> String {
        (**self).r()
    }
}

// ---------------------------------------------------------------------------------------------
// payload construction from generated draws

#[derive(Clone, Debug)]
pub struct Draw {
    pub vals: Vec<u64>,
    pub pos: usize,
}
impl Draw {
    pub fn new(vals: Vec<u64>) -> Self {
        Draw { vals, pos: 0 }
    }
    pub fn next(&mut self) -> u64 {
        let v = if self.vals.is_empty() { 0 } else { self.vals[self.pos % self.vals.len()] };
        self.pos += 1;
        v
    }
}
pub const STR_POOL: [&str; 12] =
    ["", "a", "Red", "dark blue", "  pad  ", "über", "ÜBER", "日本", "🦀", "x{y}", "q\"uote\\", "Line\nBreak"];
pub trait Mk: Sized {
    fn mk(d: &mut Draw) -> Self;
}
impl Mk for u8 {
    fn mk(d: &mut Draw) -> Self {
        let v = d.next();
        match v % 5 {
            0 => 0,
            1 => u8::MAX,
            _ => (v >> 8) as u8,
        }
    }
}
impl Mk for u16 {
    fn mk(d: &mut Draw) -> Self {
        (d.next() >> 4) as u16
    }
}
impl Mk for i32 {
    fn mk(d: &mut Draw) -> Self {
        let v = d.next();
        match v % 6 {
            0 => i32::MIN,
            1 => i32::MAX,
            2 => -1,
            _ => (v >> 8) as i32,
        }
    }
}
impl Mk for u64 {
    fn mk(d: &mut Draw) -> Self {
        let v = d.next();
        match v % 5 {
            0 => u64::MAX,
            1 => 0,
            _ => v,
        }
    }
}
impl Mk for usize {
    // small: it may serve as a width
    fn mk(d: &mut Draw) -> Self {
        (d.next() % 13) as usize
    }
}
impl Mk for bool {
    fn mk(d: &mut Draw) -> Self {
        d.next() % 2 == 1
    }
}
impl Mk for char {
    fn mk(d: &mut Draw) -> Self {
        ['a', 'Z', '0', ' ', 'é', '日', '\0', '}'][(d.next() % 8) as usize]
    }
}
impl Mk for String {
    fn mk(d: &mut Draw) -> Self {
        STR_POOL[(d.next() % 12) as usize].to_string()
    }
}
impl Mk for &'static str {
    fn mk(d: &mut Draw) -> Self {
        STR_POOL[(d.next() % 12) as usize]
    }
}
impl Mk for Box<str> {
    fn mk(d: &mut Draw) -> Self {
        String::mk(d).into()
    }
}
impl Mk for std::rc::Rc<str> {
    fn mk(d: &mut Draw) -> Self {
        String::mk(d).into()
    }
}
impl Mk for std::sync::Arc<str> {
    fn mk(d: &mut Draw) -> Self {
        String::mk(d).into()
    }
}
impl Mk for Option<u16> {
    fn mk(d: &mut Draw) -> Self {
        let v = d.next();
        if v % 3 == 0 {
            None
        } else {
            Some((v >> 8) as u16)
        }
    }
}
impl Mk for Vec<u8> {
    fn mk(d: &mut Draw) -> Self {
        let v = d.next();
        (0..(v % 4)).map(|i| (v >> (8 * (i + 1))) as u8).collect()
    }
}
impl Mk for () {
    fn mk(_: &mut Draw) -> Self {}
}
impl Mk for [u8; 2] {
    fn mk(d: &mut Draw) -> Self {
        let v = d.next();
        [v as u8, (v >> 8) as u8]
    }
}
impl Mk for Pay {
    fn mk(d: &mut Draw) -> Self {
        Pay((d.next() >> 3) as u8)
    }
}
impl Mk for Wrap {
    fn mk(d: &mut Draw) -> Self {
        Wrap(String::mk(d))
    }
}
impl Mk for Spy {
    fn mk(_: &mut Draw) -> Self {
        Spy
    }
}
impl Mk for Inner {
    fn mk(d: &mut Draw) -> Self {
        if d.next() % 2 == 0 {
            Inner::Alpha
        } else {
            Inner::BetaGamma
        }
    }
}
impl Mk for NoDef {
    fn mk(d: &mut Draw) -> Self {
        NoDef((d.next() >> 5) as u16)
    }
}
impl Mk for NotSend {
    fn mk(d: &mut Draw) -> Self {
        NotSend(std::rc::Rc::new(d.next() as u8))
    }
}
impl<X> Mk for std::marker::PhantomData<X> {
    fn mk(_: &mut Draw) -> Self {
        std::marker::PhantomData
    }
}

// ---------------------------------------------------------------------------------------------
// glue traits (implemented by emitted code)

pub trait Glue: Sized {
    fn idx(&self) -> usize;
    fn fields(&self) -> Vec<String>;
    fn make(i: usize, d: &mut Draw) -> Self;
}

/// result of a parse call as seen by the harness
#[derive(Clone, Debug, PartialEq)]
pub enum PObs {
    Ok { idx: usize, fields: Vec<String> },
    Err { debug: String, carried: Option<String> },
}
impl PObs {
    pub fn ok<E: Glue>(v: &E) -> PObs {
        PObs::Ok { idx: v.idx(), fields: v.fields() }
    }
    /// an error value of whatever type the derive chose: Debug rendering, and the carried input when
    /// it is the harness's custom error type
    pub fn err<X: fmt::Debug + 'static>(e: &X) -> PObs {
        let carried = (e as &dyn std::any::Any).downcast_ref::<MyErr>().map(|m| m.0.clone());
        PObs::Err { debug: format!("{:?}", e), carried }
    }
}

// ---------------------------------------------------------------------------------------------
// reports

#[derive(Clone, Debug, Serialize, Deserialize)]
pub struct Failure {
    pub property: String,
    pub enum_name: String,
    /// short root-cause signature, stable across inputs
    pub kind: String,
    pub input: serde_json::Value,
    pub expected: String,
    pub actual: String,
}

#[derive(Clone, Debug, Default, Serialize, Deserialize)]
pub struct EnumReport {
    pub name: String,
    pub evaluations: u64,
    pub nontrivial: u64,
    pub classes: BTreeMap<String, u64>,
    pub exhaustive: BTreeMap<String, u64>,
    pub samples: Vec<serde_json::Value>,
    pub failures: Vec<Failure>,
    pub panicked: Option<String>,
    /// source location of that panic (file, line)
    #[serde(default)]
    pub panic_at: Option<(String, u32)>,
}

/// where the most recent panic of this process was raised
pub static LAST_PANIC_AT: std::sync::Mutex<Option<(String, u32)>> = std::sync::Mutex::new(None);

#[derive(Clone, Debug, Serialize, Deserialize)]
pub struct ShardInput {
    pub property: String,
    pub tier: String,
    pub seed: u64,
    pub params: BTreeMap<String, u64>,
    pub specs: Vec<EnumSpec>,
    /// replay mode: only this input is evaluated (on specs[0])
    pub replay: Option<serde_json::Value>,
}

#[derive(Clone, Debug, Default, Serialize, Deserialize)]
pub struct ShardReport {
    pub enums: Vec<EnumReport>,
}

pub struct Ctx<'a> {
    pub input: &'a ShardInput,
    pub spec: &'a EnumSpec,
    pub rep: EnumReport,
    nontrivial_set: HashSet<u64>,
    pub seed: u64,
}

impl<'a> Ctx<'a> {
    pub fn param(&self, k: &str, default: u64) -> u64 {
        *self.input.params.get(k).unwrap_or(&default)
    }
    pub fn property(&self) -> &str {
        &self.input.property
    }
    pub fn eval(&mut self) {
        self.rep.evaluations += 1;
    }
    pub fn evals(&mut self, n: u64) {
        self.rep.evaluations += n;
    }
    pub fn class(&mut self, c: &str) {
        *self.rep.classes.entry(c.to_string()).or_insert(0) += 1;
    }
    pub fn nontrivial(&mut self, key: &[u8]) {
        if self.nontrivial_set.len() < 2_000_000 {
            self.nontrivial_set.insert(vmodel::fnv(key));
        }
    }
    pub fn exhaustive(&mut self, name: &str, n: u64) {
        *self.rep.exhaustive.entry(name.to_string()).or_insert(0) += n;
    }
    pub fn sample(&mut self, v: serde_json::Value) {
        if self.rep.samples.len() < 3 {
            self.rep.samples.push(v);
        }
    }
    pub fn fail(&mut self, kind: &str, input: serde_json::Value, expected: String, actual: String) {
        // keep the first failure per kind
        if self.rep.failures.iter().any(|f| f.kind == kind) || self.rep.failures.len() >= 8 {
            return;
        }
        self.rep.failures.push(Failure {
            property: self.input.property.clone(),
            enum_name: self.spec.name.clone(),
            kind: kind.to_string(),
            input,
            expected,
            actual,
        });
    }
    pub fn failed(&self) -> bool {
        !self.rep.failures.is_empty()
    }
    pub fn replay(&self) -> Option<&serde_json::Value> {
        self.input.replay.as_ref()
    }
}

pub type RunFn = fn(&mut Ctx);

/// argument of the per-enum fuzz entry emitted for libFuzzer targets
pub struct FzArg<'a> {
    pub spec: &'a EnumSpec,
    pub pm: &'a inputs::PM,
    pub data: &'a [u8],
    /// Some({kind, input, expected, actual}) when the oracle fails
    pub out: Option<serde_json::Value>,
}
pub type FzFn = fn(&mut FzArg);

/// catch a panic and return its message
pub fn catch<T>(f: impl FnOnce() -> T) -> Result<T, String> {
    match std::panic::catch_unwind(std::panic::AssertUnwindSafe(f)) {
        Ok(v) => Ok(v),
        Err(e) => Err(if let Some(s) = e.downcast_ref::<&str>() {
            s.to_string()
        } else if let Some(s) = e.downcast_ref::<String>() {
            s.clone()
        } else {
            "<non-string panic>".into()
        }),
    }
}

pub fn rng_for(seed: u64) -> proptest::test_runner::TestRng {
    let mut b = [0u8; 32];
    for i in 0..4 {
        b[i * 8..i * 8 + 8].copy_from_slice(&vmodel::derive_seed(seed, "rng", i as u64, 0).to_le_bytes());
    }
    proptest::test_runner::TestRng::from_seed(proptest::test_runner::RngAlgorithm::ChaCha, &b)
}

pub fn runner(seed: u64, cases: u32) -> proptest::test_runner::TestRunner {
    let cfg = proptest::test_runner::Config {
        cases,
        failure_persistence: None,
        max_shrink_iters: 2000,
        ..proptest::test_runner::Config::default()
    };
    proptest::test_runner::TestRunner::new_with_rng(cfg, rng_for(seed))
}

/// Run `f` on `cases` generated values. `f(value, counting)`: `counting` is true until the first
/// failure (proptest re-runs the closure while shrinking; those runs must not be counted).
/// Returns the shrunk failing value, if any.
pub fn prop_run<V: Clone + fmt::Debug>(
    seed: u64,
    cases: u32,
    strat: &proptest::strategy::BoxedStrategy<V>,
    f: &mut dyn FnMut(&V, bool) -> Option<String>,
) -> Option<V> {
    use proptest::test_runner::{TestCaseError, TestError};
    if cases == 0 {
        return None;
    }
    let cell = std::cell::RefCell::new((f, true));
    let mut runner = runner(seed, cases);
    let res = runner.run(strat, |v| {
        let mut g = cell.borrow_mut();
        let counting = g.1;
        match (g.0)(&v, counting) {
            None => Ok(()),
            Some(m) => {
                g.1 = false;
                Err(TestCaseError::fail(m))
            }
        }
    });
    match res {
        Ok(()) => None,
        Err(TestError::Fail(_, v)) => Some(v),
        Err(TestError::Abort(r)) => panic!("proptest aborted: {}", r),
    }
}

/// Entry point of every shard binary. argv[1] = path of the ShardInput JSON, argv[2] = report path.
pub fn main_shard(runs: &[(&str, RunFn)]) {
    let args: Vec<String> = std::env::args().collect();
    let input: ShardInput =
        serde_json::from_str(&std::fs::read_to_string(&args[1]).expect("read shard input")).expect("parse shard input");
    // silence panic messages of expected panics (disabled variants etc.)
    // (only the location is kept: an uncaught panic inside derived code is told apart from one inside the harness by it)
    std::panic::set_hook(Box::new(|info| {
        if let Some(l) = info.location() {
            if let Ok(mut g) = LAST_PANIC_AT.lock() {
                *g = Some((l.file().to_string(), l.line()));
            }
        }
    }));
    let mut report = ShardReport::default();
    // which enum is being exercised: read by the driver when this process dies of a signal (stack overflow, abort)
    let cur = format!("{}.cur", args[2]);
    for spec in &input.specs {
        let run = match runs.iter().find(|(n, _)| *n == spec.name) {
            Some((_, r)) => *r,
            None => continue, // removed from this build
        };
        let _ = std::fs::write(&cur, &spec.name);
        let seed = vmodel::derive_seed(input.seed, &input.property, vmodel::fnv(spec.name.as_bytes()), 0);
        let mut ctx = Ctx {
            input: &input,
            spec,
            rep: EnumReport { name: spec.name.clone(), ..Default::default() },
            nontrivial_set: HashSet::new(),
            seed,
        };
        let res = catch(|| run(&mut ctx));
        if let Err(msg) = res {
            ctx.rep.panicked = Some(msg);
            ctx.rep.panic_at = LAST_PANIC_AT.lock().ok().and_then(|g| g.clone());
        }
        ctx.rep.nontrivial = ctx.nontrivial_set.len() as u64;
        report.enums.push(ctx.rep);
    }
    let _ = std::fs::remove_file(&cur);
    std::fs::write(&args[2], serde_json::to_string(&report).unwrap()).expect("write report");
}
