//! Iter family: EnumIter / EnumCount / VariantNames / VariantArray. Checkers for C04 C05 C08.

use crate::*;
use proptest::prelude::*;
use serde_json::json;
use std::ops::Range;
use vmodel::model;
use vmodel::spec::Kind;

pub trait IGlue: Glue {
    type It: Iterator<Item = Self> + Clone + DoubleEndedIterator + ExactSizeIterator + std::iter::FusedIterator;
    fn iter() -> Self::It;
    fn count() -> Option<usize> {
        None
    }
    /// `E::COUNT` as users write it (trait in scope), not `<E as EnumCount>::COUNT`
    fn count_short() -> Option<usize> {
        None
    }
    fn variant_names() -> Option<&'static [&'static str]> {
        None
    }
    /// idx() of every element of VariantArray::VARIANTS
    fn variant_array() -> Option<Vec<usize>> {
        None
    }
}

#[derive(Clone, Debug, PartialEq, Eq, Hash, serde::Serialize, serde::Deserialize)]
pub enum Op {
    Next,
    NextBack,
    Nth(usize),
    NthBack(usize),
    Clone,
    Switch(usize),
}

impl Op {
    pub fn show(&self) -> String {
        match self {
            Op::Next => "next".into(),
            Op::NextBack => "next_back".into(),
            Op::Nth(k) => format!("nth({})", k),
            Op::NthBack(k) => format!("nth_back({})", k),
            Op::Clone => "clone".into(),
            Op::Switch(j) => format!("switch({})", j),
        }
    }
    pub fn parse(s: &str) -> Op {
        let num = |s: &str| s[s.find('(').unwrap() + 1..s.len() - 1].parse::<usize>().unwrap();
        if s == "next" {
            Op::Next
        } else if s == "next_back" {
            Op::NextBack
        } else if s == "clone" {
            Op::Clone
        } else if s.starts_with("nth_back(") {
            Op::NthBack(num(s))
        } else if s.starts_with("nth(") {
            Op::Nth(num(s))
        } else if s.starts_with("switch(") {
            Op::Switch(num(s))
        } else {
            panic!("bad op {}", s)
        }
    }
}

pub struct IterModel {
    /// declaration indices of the enabled variants
    pub enabled: Vec<usize>,
    pub fields: Vec<Vec<String>>,
}

impl IterModel {
    pub fn new(e: &EnumSpec) -> Self {
        let enabled = e.enabled_indices();
        let fields = enabled.iter().map(|&i| model::default_fields(&e.variants[i])).collect();
        IterModel { enabled, fields }
    }
    fn item_ok<E: Glue>(&self, got: &Option<E>, want: Option<usize>) -> Result<(), (String, String)> {
        match (got, want) {
            (None, None) => Ok(()),
            (Some(v), Some(p)) => {
                if v.idx() != self.enabled[p] {
                    return Err((format!("Some(variant #{})", self.enabled[p]), format!("Some(variant #{})", v.idx())));
                }
                let f = v.fields();
                if f != self.fields[p] {
                    return Err((format!("payload {:?}", self.fields[p]), format!("payload {:?}", f)));
                }
                Ok(())
            }
            (Some(v), None) => Err(("None".into(), format!("Some(variant #{})", v.idx()))),
            (None, Some(p)) => Err((format!("Some(variant #{})", self.enabled[p]), "None".into())),
        }
    }
}

#[derive(Clone)]
struct St<I: Clone> {
    its: Vec<(I, Range<usize>)>,
    active: usize,
}

/// apply one op to implementation and model; Err((kind, expected, actual))
fn step<E: IGlue>(m: &IterModel, st: &mut St<E::It>, op: &Op) -> Result<(), (String, String, String)> {
    let a = st.active;
    match op {
        Op::Clone => {
            let c = st.its[a].clone();
            st.its.push(c);
        }
        Op::Switch(j) => {
            st.active = j % st.its.len();
        }
        _ => {
            let (it, md) = &mut st.its[a];
            let (got, want) = match op {
                Op::Next => (catch(|| it.next()), md.next()),
                Op::NextBack => (catch(|| it.next_back()), md.next_back()),
                Op::Nth(k) => (catch(|| it.nth(*k)), md.nth(*k)),
                Op::NthBack(k) => (catch(|| it.nth_back(*k)), md.nth_back(*k)),
                _ => unreachable!(),
            };
            let got = match got {
                Ok(g) => g,
                Err(p) => return Err(("panic".into(), format!("{:?} (model)", want), format!("panicked: {}", p))),
            };
            if let Err((e, g)) = m.item_ok::<E>(&got, want) {
                return Err(("wrong-item".into(), e, g));
            }
        }
    }
    // len / size_hint exact after every call, on every live copy
    for (it, md) in st.its.iter() {
        let l = match catch(|| (it.len(), it.size_hint())) {
            Ok(x) => x,
            Err(p) => return Err(("panic-in-len".into(), format!("len {}", md.len()), p)),
        };
        if l.0 != md.len() || l.1 != (md.len(), Some(md.len())) {
            return Err(("len-size_hint".into(), format!("len {} size_hint {:?}", md.len(), (md.len(), Some(md.len()))), format!("len {} size_hint {:?}", l.0, l.1)));
        }
    }
    Ok(())
}

/// after a history: drain every copy from the front (alternating ends for odd copies) and check
/// fusedness
fn finish<E: IGlue>(m: &IterModel, st: &mut St<E::It>) -> Result<(), (String, String, String)> {
    // whole-iterator consumers (provided methods of Iterator / DoubleEndedIterator, or overrides of
    // them) on copies: a double-ended iterator over the remaining list answers them like the model
    for (it, md) in st.its.iter() {
        let want_fwd: Vec<usize> = md.clone().map(|p| m.enabled[p]).collect();
        let mut want_rev = want_fwd.clone();
        want_rev.reverse();
        // (bounded walks first: the unbounded consumers only run on an iterator that was seen to end)
        let bound = m.enabled.len().max(56) + 8;
        let walks = catch(|| {
            let fwd: Vec<usize> = it.clone().take(bound).map(|v| v.idx()).collect();
            let rev: Vec<usize> = it.clone().rev().take(bound).map(|v| v.idx()).collect();
            (fwd, rev)
        });
        match &walks {
            Ok((fwd, _)) if *fwd != want_fwd => return Err(("remaining-items".into(), format!("{:?}", want_fwd), format!("{:?}", fwd))),
            Ok((_, rev)) if *rev != want_rev => return Err(("remaining-items-reversed".into(), format!("{:?}", want_rev), format!("{:?}", rev))),
            _ => {}
        }
        let obs = walks.and_then(|(fwd, rev)| {
            catch(|| {
                let cnt = it.clone().count();
                let last = it.clone().last().map(|v| v.idx());
                let folded = it.clone().fold(0usize, |a, _| a + 1);
                (fwd, rev, cnt, last, folded)
            })
        });
        match obs {
            Err(p) => return Err(("panic-in-consumer".into(), format!("{:?}", want_fwd), p)),
            Ok((fwd, rev, cnt, last, folded)) => {
                if fwd != want_fwd {
                    return Err(("remaining-items".into(), format!("{:?}", want_fwd), format!("{:?}", fwd)));
                }
                if rev != want_rev {
                    return Err(("remaining-items-reversed".into(), format!("{:?}", want_rev), format!("{:?}", rev)));
                }
                if cnt != want_fwd.len() || folded != want_fwd.len() || last != want_fwd.last().copied() {
                    return Err((
                        "count-last-fold".into(),
                        format!("count {} last {:?} fold {}", want_fwd.len(), want_fwd.last(), want_fwd.len()),
                        format!("count {} last {:?} fold {}", cnt, last, folded),
                    ));
                }
            }
        }
    }
    for (n, (it, md)) in st.its.iter_mut().enumerate() {
        let mut guard = 0;
        loop {
            guard += 1;
            if guard > m.enabled.len().max(56) + 8 {
                return Err(("does-not-terminate".into(), "exhaustion".into(), format!("more than {} items", m.enabled.len().max(56) + 8)));
            }
            let back = n % 2 == 1 && guard % 2 == 0;
            let (got, want) = if back { (catch(|| it.next_back()), md.next_back()) } else { (catch(|| it.next()), md.next()) };
            let got = match got {
                Ok(g) => g,
                Err(p) => return Err(("panic".into(), format!("{:?}", want), p)),
            };
            if let Err((e, g)) = m.item_ok::<E>(&got, want) {
                return Err(("wrong-item-in-drain".into(), e, g));
            }
            if want.is_none() {
                break;
            }
        }
        for _ in 0..3 {
            let r = catch(|| (it.next().map(|v| v.idx()), it.next_back().map(|v| v.idx()), it.len()));
            match r {
                Ok((None, None, 0)) => {}
                Ok(x) => return Err(("not-fused".into(), "(None, None, 0)".into(), format!("{:?}", x))),
                Err(p) => return Err(("panic".into(), "None".into(), p)),
            }
        }
    }
    Ok(())
}

fn run_history<E: IGlue>(m: &IterModel, h: &[Op]) -> Result<(), (String, String, String)> {
    let n = m.enabled.len();
    let mut st: St<E::It> = St { its: vec![(E::iter(), 0..n)], active: 0 };
    for op in h {
        step::<E>(m, &mut st, op)?;
    }
    finish::<E>(m, &mut st)
}

fn alphabet(n: usize, huge: bool) -> Vec<Op> {
    let mut a = vec![Op::Next, Op::NextBack];
    let mut ks: Vec<usize> = (0..=n + 1).collect();
    if n > 12 {
        // large enums: both ends, the middle and one past the end instead of every argument
        ks = vec![0, 1, 2, 3, n / 3, n / 2, n - 2, n - 1, n, n + 1];
        ks.dedup();
    }
    if huge {
        ks.push(usize::MAX - 1);
        ks.push(usize::MAX);
    }
    for k in &ks {
        a.push(Op::Nth(*k));
    }
    for k in &ks {
        a.push(Op::NthBack(*k));
    }
    a.push(Op::Clone);
    a.push(Op::Switch(1));
    a
}

/// arguments around the widths a narrower cursor type would truncate at (u8, u16, u32, i64)
fn wide_ks(n: usize) -> Vec<usize> {
    let mut ks = vec![0usize, 1];
    for b in [8u32, 16, 31, 32, 63] {
        if (b as usize) < usize::BITS as usize {
            let p = 1usize << b;
            ks.push(p - 1);
            ks.push(p);
            ks.push(p + 1);
            if n > 1 {
                ks.push(p + n - 1);
            }
        }
    }
    ks.sort();
    ks.dedup();
    ks
}

fn alphabet_wide(n: usize) -> Vec<Op> {
    let mut a = vec![Op::Next, Op::NextBack];
    for k in wide_ks(n) {
        a.push(Op::Nth(k));
        a.push(Op::NthBack(k));
    }
    a.push(Op::Clone);
    a
}

fn nontrivial_history(h: &[Op]) -> bool {
    let front = h.iter().any(|o| matches!(o, Op::Next | Op::Nth(_)));
    let back = h.iter().any(|o| matches!(o, Op::NextBack | Op::NthBack(_)));
    let nth = h.iter().any(|o| matches!(o, Op::Nth(k) | Op::NthBack(k) if *k >= 1));
    let copy = h.iter().any(|o| matches!(o, Op::Clone));
    (front && back) || nth || copy
}

fn hist_json(h: &[Op]) -> serde_json::Value {
    json!(h.iter().map(|o| o.show()).collect::<Vec<_>>())
}

/// exhaustive DFS over all histories up to `depth`
fn dfs<E: IGlue>(ctx: &mut Ctx, m: &IterModel, alpha: &[Op], st: &St<E::It>, h: &mut Vec<Op>, depth: usize, count: &mut u64) -> bool {
    for op in alpha {
        let mut s2 = st.clone();
        h.push(op.clone());
        *count += 1;
        let r = step::<E>(m, &mut s2, op).and_then(|_| {
            let mut s3 = s2.clone();
            finish::<E>(m, &mut s3)
        });
        if nontrivial_history(h) {
            ctx.nontrivial(format!("{:?}", h).as_bytes());
        }
        if let Err((k, e, a)) = r {
            ctx.fail(&format!("iter:{}", k), json!({"history": hist_json(h), "n_enabled": m.enabled.len()}), e, a);
            h.pop();
            return false;
        }
        if h.len() < depth {
            if !dfs::<E>(ctx, m, alpha, &s2, h, depth, count) {
                h.pop();
                return false;
            }
        }
        h.pop();
    }
    true
}

#[derive(Clone, Debug)]
enum Adapter {
    Skip(usize),
    StepBy(usize),
    Rev,
    Take(usize),
}

fn apply_model(a: &[Adapter], n: usize) -> Vec<usize> {
    let mut v: Vec<usize> = (0..n).collect();
    for ad in a {
        v = match ad {
            Adapter::Skip(k) => v.into_iter().skip(*k).collect(),
            Adapter::StepBy(k) => v.into_iter().step_by(*k).collect(),
            Adapter::Rev => v.into_iter().rev().collect(),
            Adapter::Take(k) => v.into_iter().take(*k).collect(),
        };
    }
    v
}

fn apply_impl<E: IGlue>(a: &[Adapter], lim: usize) -> Vec<usize> {
    // the adapters run on the derived iterator itself (skip/step_by call nth, rev calls next_back,
    // rev after skip/step_by needs len()); items are mapped to positions only at the end
    let collect = |i: &mut dyn Iterator<Item = E>| -> Vec<usize> { i.take(lim).map(|v| v.idx()).collect() };
    let mut it = E::iter();
    match a {
        [] => collect(&mut it),
        [Adapter::Skip(k)] => collect(&mut it.skip(*k)),
        [Adapter::StepBy(k)] => collect(&mut it.step_by(*k)),
        [Adapter::Rev] => collect(&mut it.rev()),
        [Adapter::Take(k)] => collect(&mut it.take(*k)),
        [Adapter::Skip(k), Adapter::Skip(j)] => collect(&mut it.skip(*k).skip(*j)),
        [Adapter::Skip(k), Adapter::StepBy(j)] => collect(&mut it.skip(*k).step_by(*j)),
        [Adapter::Skip(k), Adapter::Rev] => collect(&mut it.skip(*k).rev()),
        [Adapter::Skip(k), Adapter::Take(j)] => collect(&mut it.skip(*k).take(*j)),
        [Adapter::StepBy(k), Adapter::Skip(j)] => collect(&mut it.step_by(*k).skip(*j)),
        [Adapter::StepBy(k), Adapter::StepBy(j)] => collect(&mut it.step_by(*k).step_by(*j)),
        [Adapter::StepBy(k), Adapter::Rev] => collect(&mut it.step_by(*k).rev()),
        [Adapter::StepBy(k), Adapter::Take(j)] => collect(&mut it.step_by(*k).take(*j)),
        [Adapter::Rev, Adapter::Skip(j)] => collect(&mut it.rev().skip(*j)),
        [Adapter::Rev, Adapter::StepBy(j)] => collect(&mut it.rev().step_by(*j)),
        [Adapter::Rev, Adapter::Rev] => collect(&mut it.rev().rev()),
        [Adapter::Rev, Adapter::Take(j)] => collect(&mut it.rev().take(*j)),
        [Adapter::Take(k), Adapter::Skip(j)] => collect(&mut it.take(*k).skip(*j)),
        [Adapter::Take(k), Adapter::StepBy(j)] => collect(&mut it.take(*k).step_by(*j)),
        [Adapter::Take(k), Adapter::Rev] => collect(&mut it.take(*k).rev()),
        [Adapter::Take(k), Adapter::Take(j)] => collect(&mut it.take(*k).take(*j)),
        _ => unreachable!(),
    }
}

fn check_adapters<E: IGlue>(ctx: &mut Ctx, m: &IterModel) {
    let n = m.enabled.len();
    let mut ks: Vec<usize> = (0..=n + 1).collect();
    ks.push(usize::MAX - 1);
    ks.push(usize::MAX);
    let mut ads: Vec<Adapter> = vec![Adapter::Rev];
    for k in &ks {
        ads.push(Adapter::Skip(*k));
        ads.push(Adapter::Take(*k));
        if *k >= 1 {
            ads.push(Adapter::StepBy(*k));
        }
    }
    let mut chains: Vec<Vec<Adapter>> = ads.iter().map(|a| vec![a.clone()]).collect();
    for a in &ads {
        for b in &ads {
            // std's own StepBy::nth needs ~2^64 steps when both the step and the argument are huge
            // (overflow loop in core::iter::adapters::step_by); that is not the derived iterator's
            // business, so a huge step_by is only followed by rev / take
            let huge_step = matches!(a, Adapter::StepBy(k) if *k > n + 1);
            if huge_step && !matches!(b, Adapter::Rev | Adapter::Take(_)) {
                continue;
            }
            chains.push(vec![a.clone(), b.clone()]);
        }
    }
    let mut cnt = 0;
    for c in chains {
        cnt += 1;
        ctx.eval();
        let want: Vec<usize> = apply_model(&c, n).into_iter().map(|p| m.enabled[p]).collect();
        let got = catch(|| apply_impl::<E>(&c, n.max(32) + 8));
        ctx.nontrivial(format!("adapters{:?}", c).as_bytes());
        match got {
            Ok(g) if g == want => {}
            Ok(g) => ctx.fail("iter:adapter-wrong-items", json!({"adapters": format!("{:?}", c), "n_enabled": n}), format!("{:?}", want), format!("{:?}", g)),
            Err(p) => ctx.fail("iter:adapter-panic", json!({"adapters": format!("{:?}", c), "n_enabled": n}), format!("{:?}", want), format!("panicked: {}", p)),
        }
        if ctx.failed() {
            break;
        }
    }
    ctx.exhaustive("adapter chains (skip/step_by/take/rev, depth <= 2, k in 0..N+1 and usize::MAX-1, usize::MAX)", cnt);
}

pub fn c05<E: IGlue>(ctx: &mut Ctx) {
    let spec = ctx.spec;
    let m = IterModel::new(spec);
    let n = m.enabled.len();
    if let Some(r) = ctx.replay() {
        if let Some(hs) = r["history"].as_array() {
            let h: Vec<Op> = hs.iter().map(|s| Op::parse(s.as_str().unwrap())).collect();
            ctx.eval();
            if let Err((k, e, a)) = run_history::<E>(&m, &h) {
                ctx.fail(&format!("iter:{}", k), json!({"history": hist_json(&h), "n_enabled": n}), e, a);
            }
        } else {
            check_adapters::<E>(ctx, &m);
        }
        return;
    }
    let depth = ctx.param("depth", 3) as usize;
    // phase 1: exhaustive without the two huge arguments, phase 2: with them
    for (huge, d) in [(false, depth), (true, depth)] {
        let alpha = alphabet(n, huge);
        let st: St<E::It> = St { its: vec![(E::iter(), 0..n)], active: 0 };
        let mut h = Vec::new();
        let mut count = 0u64;
        let ok = dfs::<E>(ctx, &m, &alpha, &st, &mut h, d, &mut count);
        ctx.evals(count);
        ctx.exhaustive(&format!("all call histories up to depth {} ({} huge arguments)", d, if huge { "with" } else { "without" }), count);
        if !ok {
            return;
        }
    }
    {
        // phase 3: arguments next to 2^8, 2^16, 2^31, 2^32, 2^63 (depth 2)
        let alpha = alphabet_wide(n);
        let st: St<E::It> = St { its: vec![(E::iter(), 0..n)], active: 0 };
        let mut h = Vec::new();
        let mut count = 0u64;
        let ok = dfs::<E>(ctx, &m, &alpha, &st, &mut h, 2, &mut count);
        ctx.evals(count);
        ctx.exhaustive("all call histories up to depth 2 with arguments around 2^8, 2^16, 2^31, 2^32, 2^63", count);
        if !ok {
            return;
        }
    }
    ctx.sample(json!({"enum": spec.name, "n_enabled": n, "history": ["nth(1)", "clone", "next_back", "switch(1)", "nth(18446744073709551615)"]}));
    check_adapters::<E>(ctx, &m);
    if ctx.failed() {
        return;
    }
    // long random histories (shrinkable)
    let mut alpha = alphabet(n, true);
    for k in wide_ks(n) {
        if k > n + 1 {
            alpha.push(Op::Nth(k));
            alpha.push(Op::NthBack(k));
        }
    }
    let alen = alpha.len();
    let strat = proptest::collection::vec((0..alen, 0..8usize), 0..64)
        .prop_map(move |v| {
            v.into_iter()
                .map(|(i, j)| match &alpha[i] {
                    Op::Switch(_) => Op::Switch(j),
                    o => o.clone(),
                })
                .collect::<Vec<Op>>()
        })
        .boxed();
    let cases = ctx.param("cases", 2000) as u32;
    let seed = ctx.seed;
    let mut first: Option<Vec<Op>> = None;
    let shrunk = {
        let mut f = |h: &Vec<Op>, counting: bool| -> Option<String> {
            if counting {
                ctx.eval();
                if nontrivial_history(h) {
                    ctx.nontrivial(format!("{:?}", h).as_bytes());
                }
                if first.is_none() && h.len() > 6 {
                    first = Some(h.clone());
                }
            }
            run_history::<E>(&m, h).err().map(|x| x.0)
        };
        prop_run(seed, cases, &strat, &mut f)
    };
    if let Some(h) = first {
        ctx.sample(json!({"enum": spec.name, "n_enabled": n, "history": hist_json(&h)}));
    }
    if let Some(h) = shrunk {
        if let Err((k, e, a)) = run_history::<E>(&m, &h) {
            ctx.fail(&format!("iter:{}", k), json!({"history": hist_json(&h), "n_enabled": n, "shrunk": true}), e, a);
        }
    }
}

/// C04: iteration content and order
pub fn c04<E: IGlue>(ctx: &mut Ctx) {
    let spec = ctx.spec;
    let m = IterModel::new(spec);
    let n = m.enabled.len();
    let describe = |v: &Vec<E>| -> Vec<(usize, Vec<String>)> { v.iter().map(|x| (x.idx(), x.fields())).collect() };
    let want: Vec<(usize, Vec<String>)> = (0..n).map(|p| (m.enabled[p], m.fields[p].clone())).collect();
    let fwd: Result<Vec<E>, String> = catch(|| E::iter().take(200.max(2 * n + 8)).collect());
    ctx.eval();
    let nontrivial = spec.variants.iter().any(|v| v.kind != Kind::Unit) || {
        let last_en = m.enabled.last().copied().unwrap_or(0);
        spec.variants.iter().enumerate().any(|(i, v)| v.disabled() && i < last_en)
    };
    if nontrivial {
        ctx.nontrivial(&spec.hash64().to_le_bytes());
    }
    let mask: String = spec.variants.iter().map(|v| if v.disabled() { 'd' } else { 'E' }).collect();
    ctx.class(&format!("n_variants={}", spec.variants.len().min(9)));
    match fwd {
        Ok(v) => {
            let got = describe(&v);
            if got != want {
                ctx.fail("iter-forward-content", json!({"mask": mask}), format!("{:?}", want), format!("{:?}", got));
            }
        }
        Err(p) => ctx.fail("iter-forward-panic", json!({"mask": mask}), format!("{:?}", want), p),
    }
    ctx.eval();
    match catch(|| E::iter().rev().take(200.max(2 * n + 8)).collect::<Vec<E>>()) {
        Ok(v) => {
            let got = describe(&v);
            let mut w = want.clone();
            w.reverse();
            if got != w {
                ctx.fail("iter-reverse-content", json!({"mask": mask}), format!("{:?}", w), format!("{:?}", got));
            }
        }
        Err(p) => ctx.fail("iter-reverse-panic", json!({"mask": mask}), "reverse list".into(), p),
    }
    if ctx.failed() {
        return;
    }
    ctx.eval();
    // (bounded: an iterator that never ends must not hang the check)
    let cnt = E::iter().take(2 * n + 8).count();
    let len = E::iter().len();
    let c = E::count();
    if cnt != n || len != n || c != Some(n) {
        ctx.fail("iter-count", json!({"mask": mask}), format!("count = len = COUNT = {}", n), format!("count {} len {} COUNT {:?}", cnt, len, c));
    }
    // meeting in the middle from both ends never duplicates
    ctx.eval();
    let mut it = E::iter();
    let mut seen = Vec::new();
    for k in 0..(n + 2) {
        let x = if k % 2 == 0 { it.next() } else { it.next_back() };
        if let Some(x) = x {
            seen.push(x.idx());
        }
    }
    let mut sorted = seen.clone();
    sorted.sort();
    let mut en = m.enabled.clone();
    en.sort();
    if sorted != en {
        ctx.fail("iter-both-ends-partition", json!({"mask": mask}), format!("{:?}", en), format!("{:?}", seen));
    }
    ctx.sample(json!({"enum": spec.name, "disabled_mask": mask, "kinds": spec.variants.iter().map(|v| format!("{:?}", v.kind)).collect::<Vec<_>>()}));
}

/// C08: COUNT / VariantNames / VariantArray / EnumIter agree
pub fn c08<E: IGlue>(ctx: &mut Ctx) {
    let spec = ctx.spec;
    let m = IterModel::new(spec);
    let n_en = m.enabled.len();
    let n_decl = spec.variants.len();
    let mask: String = spec.variants.iter().map(|v| if v.disabled() { 'd' } else { 'E' }).collect();
    let input = json!({"mask": mask, "n": n_decl});
    ctx.eval();
    let cnt = E::iter().take(2 * n_en + 8).count();
    if E::count() != Some(n_en) || cnt != n_en {
        ctx.fail("count-vs-enabled", input.clone(), format!("COUNT = iter().count() = {}", n_en), format!("COUNT {:?} iter().count() {}", E::count(), cnt));
    }
    // the short path `E::COUNT` must name the same constant (nothing the other derives add may capture it)
    if E::count_short().is_some() && E::count_short() != E::count() {
        ctx.fail("count-short-path", input.clone(), format!("E::COUNT = {:?}", E::count()), format!("E::COUNT = {:?}", E::count_short()));
    }
    if let Some(names) = E::variant_names() {
        ctx.eval();
        let want: Vec<String> = spec.variants.iter().map(|v| model::canonical(spec, v)).collect();
        let got: Vec<String> = names.iter().map(|s| s.to_string()).collect();
        if got != want {
            ctx.fail("variant-names", input.clone(), format!("{:?}", want), format!("{:?}", got));
        }
    } else if spec.derives("VariantNames") {
        panic!("glue: VariantNames not exposed");
    }
    if let Some(arr) = E::variant_array() {
        ctx.eval();
        let want: Vec<usize> = (0..n_decl).collect();
        if arr != want {
            ctx.fail("variant-array", input.clone(), format!("{:?}", want), format!("{:?}", arr));
        }
        if n_en == n_decl {
            // no disabled variant: position i refers to the same variant everywhere
            for i in 0..n_decl {
                ctx.eval();
                let it = E::iter().nth(i).map(|v| v.idx());
                if it != Some(arr[i]) {
                    ctx.fail("array-vs-iter", json!({"mask": mask, "i": i}), format!("Some({})", arr[i]), format!("{:?}", it));
                }
            }
        }
    } else if spec.derives("VariantArray") {
        panic!("glue: VariantArray not exposed");
    }
    if n_en == n_decl {
        for i in 0..n_decl {
            ctx.eval();
            let it = E::iter().nth(i).map(|v| v.idx());
            if it != Some(i) {
                ctx.fail("iter-position", json!({"mask": mask, "i": i}), format!("Some({})", i), format!("{:?}", it));
            }
        }
    }
    let nontrivial = n_decl >= 3
        && (spec.variants.iter().any(|v| v.disabled()) || spec.variants.iter().any(|v| v.has_explicit_name() || v.disc.is_some()) || spec.serialize_all().is_some() || spec.prefix().is_some());
    if nontrivial {
        ctx.nontrivial(&spec.hash64().to_le_bytes());
    }
    ctx.class(&format!("derives={}", spec.derives.join("+")));
    ctx.sample(json!({"enum": spec.name, "mask": mask, "derives": spec.derives, "names": E::variant_names().map(|n| n.to_vec())}));
}

/// libFuzzer entry: bytes decode to a call history (one byte per operation)
pub fn fuzz_iter<E: IGlue>(a: &mut FzArg) {
    let m = IterModel::new(a.spec);
    let n = m.enabled.len();
    let alpha = alphabet(n, true);
    let mut h: Vec<Op> = Vec::new();
    for (i, b) in a.data.iter().take(96).enumerate() {
        let op = alpha[*b as usize % alpha.len()].clone();
        h.push(match op {
            Op::Switch(_) => Op::Switch(i),
            o => o,
        });
    }
    if let Err((k, e, g)) = run_history::<E>(&m, &h) {
        a.out = Some(json!({"kind": format!("iter:{}", k), "input": {"history": hist_json(&h), "n_enabled": n, "class": "libfuzzer"}, "expected": e, "actual": g}));
    }
}
