//! Runtime input strings for the parse-side properties (DESIGN §5.2).

use proptest::prelude::*;
use proptest::strategy::BoxedStrategy;
use vmodel::model;
use vmodel::spec::EnumSpec;

/// precomputed parse model of one enum
pub struct PM {
    pub vars: Vec<PV>,
    pub default: Option<usize>,
}
pub struct PV {
    pub enabled: bool,
    pub is_default: bool,
    pub ci: bool,
    pub spellings: Vec<String>,
    pub fields: Vec<String>,
}
#[derive(Clone, Debug, PartialEq)]
pub enum Exp {
    Variant(usize),
    Captured(usize),
    Err,
}
impl PM {
    pub fn new(e: &EnumSpec) -> PM {
        PM {
            vars: e
                .variants
                .iter()
                .map(|v| PV {
                    enabled: !v.disabled(),
                    is_default: v.is_default(),
                    ci: model::is_ci(e, v),
                    spellings: model::spellings(e, v),
                    fields: model::expected_fields(v),
                })
                .collect(),
            default: model::default_variant(e),
        }
    }
    pub fn matching(&self, s: &str) -> Vec<usize> {
        let mut out = vec![];
        for (i, v) in self.vars.iter().enumerate() {
            if !v.enabled || v.is_default {
                continue;
            }
            if v.spellings.iter().any(|p| p == s || (v.ci && model::ascii_fold_eq(p, s))) {
                out.push(i);
            }
        }
        out
    }
    pub fn parse(&self, s: &str) -> Exp {
        match self.matching(s).first() {
            Some(&i) => Exp::Variant(i),
            None => match self.default {
                Some(i) => Exp::Captured(i),
                None => Exp::Err,
            },
        }
    }
}

pub fn ascii_letters(s: &str) -> usize {
    s.bytes().filter(|b| b.is_ascii_alphabetic()).count()
}

/// flip the case of the ASCII letters selected by mask (bit i = i-th ASCII letter)
pub fn flip(s: &str, mask: u64) -> String {
    let mut k = 0;
    s.chars()
        .map(|c| {
            if c.is_ascii_alphabetic() {
                let f = (mask >> (k % 64)) & 1 == 1;
                k += 1;
                if f {
                    if c.is_ascii_lowercase() {
                        c.to_ascii_uppercase()
                    } else {
                        c.to_ascii_lowercase()
                    }
                } else {
                    c
                }
            } else {
                c
            }
        })
        .collect()
}

const LOOKALIKES: [(&str, &str); 12] = [
    ("k", "\u{212A}"),
    ("K", "\u{212A}"),
    ("s", "ſ"),
    ("S", "ſ"),
    ("i", "ı"),
    ("I", "İ"),
    ("ss", "ß"),
    ("ß", "ss"),
    ("ß", "ẞ"),
    ("a", "а"), // cyrillic a
    ("e", "é"),
    ("o", "ο"), // greek omicron
];

/// every single look-alike substitution and every case flip of a non-ASCII cased letter
pub fn lookalikes(s: &str) -> Vec<String> {
    let mut out = Vec::new();
    for (a, b) in LOOKALIKES.iter() {
        let mut from = 0;
        while let Some(p) = s[from..].find(a) {
            let at = from + p;
            out.push(format!("{}{}{}", &s[..at], b, &s[at + a.len()..]));
            from = at + a.len();
            if from >= s.len() {
                break;
            }
        }
    }
    // ASCII bytes that differ only in bit 5 (what a careless `| 0x20` fold would equate): '_' / DEL,
    // '@' / '`', '[' / '{', digits / control characters ...
    for (i, c) in s.char_indices() {
        if c.is_ascii() && !c.is_ascii_alphabetic() {
            let p = ((c as u8) ^ 0x20) as char;
            out.push(format!("{}{}{}", &s[..i], p, &s[i + 1..]));
        }
    }
    for (i, c) in s.char_indices() {
        if !c.is_ascii() {
            let up: String = c.to_uppercase().collect();
            let lo: String = c.to_lowercase().collect();
            for alt in [up, lo] {
                if alt != c.to_string() {
                    out.push(format!("{}{}{}", &s[..i], alt, &s[i + c.len_utf8()..]));
                }
            }
        }
    }
    out.sort();
    out.dedup();
    out
}

pub fn edit(s: &str, op: u8, pos: usize, ch: char) -> String {
    let mut cs: Vec<char> = s.chars().collect();
    let n = cs.len();
    match op % 7 {
        0 => {
            cs.insert(pos % (n + 1), ch);
        }
        1 => {
            if n > 0 {
                cs.remove(pos % n);
            }
        }
        2 => {
            if n > 0 {
                cs[pos % n] = ch;
            }
        }
        3 => {
            if n > 1 {
                let p = pos % (n - 1);
                cs.swap(p, p + 1);
            }
        }
        4 => {
            cs.insert(0, [' ', '\t', '\n', '\0'][pos % 4]);
        }
        5 => {
            cs.push([' ', '\t', '\n', '\0'][pos % 4]);
        }
        _ => {
            // double the string / append itself
            let c2 = cs.clone();
            cs.extend(c2);
        }
    }
    cs.into_iter().collect()
}

pub struct InputSpace {
    /// class 1: every declared spelling of every variant (enabled, disabled, default)
    pub spellings: Vec<String>,
    /// class 4/5: identifiers, their conversions under every style, prefixed canonical names
    pub derived: Vec<String>,
}

pub fn input_space(e: &EnumSpec) -> InputSpace {
    let mut spellings = Vec::new();
    let mut derived = Vec::new();
    for v in &e.variants {
        for s in model::spellings(e, v) {
            spellings.push(s);
        }
        derived.push(v.ident.clone());
        for st in model::STYLES.iter() {
            derived.push(model::case(&v.ident, Some(st)));
        }
        if let Some(p) = e.prefix() {
            derived.push(model::canonical(e, v));
            for s in model::spellings(e, v) {
                derived.push(format!("{}{}", p, s));
            }
        }
    }
    spellings.sort();
    spellings.dedup();
    derived.sort();
    derived.dedup();
    InputSpace { spellings, derived }
}

fn pick(v: &[String]) -> BoxedStrategy<String> {
    if v.is_empty() {
        Just(String::new()).boxed()
    } else {
        let v = v.to_vec();
        (0..v.len()).prop_map(move |i| v[i].clone()).boxed()
    }
}

/// weighted union of the input classes; yields (input, class name)
pub fn input_strategy(sp: &InputSpace, emphasis: &str) -> BoxedStrategy<(String, &'static str)> {
    let sps = sp.spellings.clone();
    let spelling = pick(&sps).prop_map(|s| (s, "spelling"));
    let flipc = (pick(&sps), any::<u64>()).prop_map(|(s, m)| (flip(&s, m), "flip"));
    let editc = (pick(&sps), any::<u8>(), any::<usize>(), prop_oneof![Just('x'), Just('_'), Just(' '), Just('é'), any::<char>()])
        .prop_map(|(s, op, pos, ch)| (edit(&s, op, pos, ch), "edit"));
    let derivedc = pick(&sp.derived).prop_map(|s| (s, "derived"));
    let derived_flip = (pick(&sp.derived), any::<u64>()).prop_map(|(s, m)| (flip(&s, m), "derived-flip"));
    let la = (pick(&sps), any::<usize>()).prop_map(|(s, i)| {
        let l = lookalikes(&s);
        if l.is_empty() {
            (s, "spelling")
        } else {
            (l[i % l.len()].clone(), "lookalike")
        }
    });
    let fixed = prop_oneof![
        Just(String::new()),
        Just(" ".to_string()),
        Just("\t\n".to_string()),
        Just("\0".to_string()),
        Just("x".repeat(300)),
        Just("_".to_string()),
        Just("İ".to_string()),
    ]
    .prop_map(|s| (s, "fixed"));
    let random = "\\PC{0,12}".prop_map(|s| (s, "random"));
    let ascii = "[ -~]{0,10}".prop_map(|s| (s, "random"));
    match emphasis {
        "ci" => prop_oneof![
            2 => spelling, 10 => flipc, 2 => editc, 2 => derivedc, 3 => derived_flip, 6 => la, 1 => fixed, 1 => random, 1 => ascii
        ]
        .boxed(),
        _ => prop_oneof![
            3 => spelling, 5 => flipc, 6 => editc, 3 => derivedc, 2 => derived_flip, 3 => la, 1 => fixed, 2 => random, 1 => ascii
        ]
        .boxed(),
    }
}
