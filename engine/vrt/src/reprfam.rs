//! Repr family: FromRepr. Checker for C06.

use crate::*;
use proptest::prelude::*;
use serde_json::json;
use vmodel::model;

pub trait RGlue: Glue {
    /// None when d does not fit the discriminant type
    fn from_repr(d: i128) -> Option<Option<Self>>;
    /// the discriminant rustc gave this value (`as` cast, or the documented pointer read)
    fn as_repr(&self) -> Option<i128> {
        None
    }
    /// (d, index of the variant returned by a const-evaluated from_repr(d))
    fn const_results() -> Vec<(i128, Option<usize>)> {
        vec![]
    }
}

struct RM {
    /// (disc, variant index, enabled)
    discs: Vec<(i128, usize, bool)>,
    fields: Vec<Vec<String>>,
}

fn expect(m: &RM, d: i128) -> Option<usize> {
    m.discs.iter().find(|(x, _, en)| *x == d && *en).map(|x| x.1)
}

fn eval<E: RGlue>(m: &RM, d: i128) -> Result<bool, (String, String, String)> {
    let got = match catch(|| E::from_repr(d)) {
        Ok(None) => return Ok(false),
        Ok(Some(g)) => g,
        Err(p) => return Err(("from_repr-panic".into(), "no panic".into(), p)),
    };
    let want = expect(m, d);
    match (&got, want) {
        (None, None) => Ok(true),
        (Some(v), Some(i)) => {
            if v.idx() != i {
                return Err(("from_repr-wrong-variant".into(), format!("Some(variant #{})", i), format!("Some(variant #{})", v.idx())));
            }
            if v.fields() != m.fields[i] {
                return Err(("from_repr-payload".into(), format!("{:?}", m.fields[i]), format!("{:?}", v.fields())));
            }
            Ok(true)
        }
        (Some(v), None) => {
            let dis = m.discs.iter().any(|(x, i, en)| *x == d && !*en && *i == v.idx());
            Err((if dis { "from_repr-disabled-variant-produced" } else { "from_repr-unexpected-some" }.into(), "None".into(), format!("Some(variant #{})", v.idx())))
        }
        (None, Some(i)) => Err(("from_repr-missing".into(), format!("Some(variant #{})", i), "None".into())),
    }
}

pub fn c06<E: RGlue>(ctx: &mut Ctx) {
    let spec = ctx.spec;
    let ds = model::discs(spec);
    let m = RM {
        discs: ds.iter().enumerate().map(|(i, d)| (*d, i, !spec.variants[i].disabled())).collect(),
        fields: spec.variants.iter().map(|v| model::default_fields(v)).collect(),
    };
    let repr = spec.repr_int.clone();
    let (lo, hi) = model::repr_range(repr.as_deref());
    if let Some(r) = ctx.replay() {
        let d: i128 = r["d"].as_str().map(|s| s.parse().unwrap()).unwrap_or_else(|| r["d"].as_i64().unwrap() as i128);
        ctx.eval();
        if let Err((k, e, a)) = eval::<E>(&m, d) {
            ctx.fail(&k, json!({"d": d.to_string()}), e, a);
        }
        return;
    }
    let has_disabled_before_enabled = {
        let last_en = spec.enabled_indices().last().copied().unwrap_or(0);
        spec.variants.iter().enumerate().any(|(i, v)| v.disabled() && i < last_en)
    };
    let interesting_prog = has_disabled_before_enabled
        || spec.variants.iter().any(|v| v.disc.is_some())
        || matches!(repr.as_deref(), Some("i8") | Some("i16") | Some("i32") | Some("i64") | Some("isize"));
    let near = |d: i128| ds.iter().any(|x| (x - d).abs() <= 1);
    let mut one = |ctx: &mut Ctx, d: i128, class: &str| {
        match eval::<E>(&m, d) {
            Ok(true) => {
                ctx.eval();
                ctx.class(class);
                if interesting_prog && near(d) {
                    ctx.nontrivial(&d.to_le_bytes());
                }
            }
            Ok(false) => {}
            Err((k, e, a)) => {
                ctx.eval();
                ctx.fail(&k, json!({"d": d.to_string(), "class": class, "repr": repr}), e, a)
            }
        }
    };
    // model vs. compiler: every constructible value reports the discriminant the model predicts,
    // and from_repr(v as R) == Some(v)
    for (i, v) in spec.variants.iter().enumerate() {
        let _ = v;
        let mut dr = Draw::new(vec![1, 2, 3]);
        let val = E::make(i, &mut dr);
        if let Some(r) = val.as_repr() {
            ctx.eval();
            if r != ds[i] {
                // the harness's own model disagrees with rustc: generator / model bug, not strum's
                panic!("model discriminant {} != rustc discriminant {} for variant #{} of {}", ds[i], r, i, spec.name);
            }
        }
        one(ctx, ds[i], "declared-discriminant");
    }
    for (d, idx) in E::const_results() {
        ctx.eval();
        ctx.class("const-evaluated");
        if idx != expect(&m, d) {
            ctx.fail("from_repr-const-eval", json!({"d": d.to_string()}), format!("{:?}", expect(&m, d)), format!("{:?}", idx));
        }
    }
    let bits = match repr.as_deref() {
        Some("u8") | Some("i8") => 8,
        Some("u16") | Some("i16") => 16,
        _ => 64,
    };
    if bits <= 16 {
        let mut n = 0;
        let mut d = lo;
        while d <= hi {
            one(ctx, d, "exhaustive");
            n += 1;
            d += 1;
        }
        ctx.exhaustive(&format!("every value of the {}-bit discriminant type", bits), n);
    } else {
        let mut pts: Vec<i128> = vec![0, 1, -1, lo, hi, lo + 1, hi - 1];
        for d in &ds {
            pts.extend([d - 1, *d, d + 1, d - 2, d + 2, d ^ 0x100, d.wrapping_neg()]);
        }
        // dense indices are a classic wrong answer
        for i in 0..(spec.variants.len() as i128 + 2) {
            pts.push(i);
        }
        pts.sort();
        pts.dedup();
        for d in pts {
            if d >= lo && d <= hi {
                one(ctx, d, "boundary");
            }
        }
        let cases = ctx.param("cases", 2000) as u32;
        let seed = ctx.seed;
        let ds2 = ds.clone();
        let strat = prop_oneof![
            3 => (lo..=hi).boxed(),
            2 => (-300i128..300).boxed(),
            2 => (0..ds2.len().max(1), -3i128..=3).prop_map(move |(i, off)| if ds2.is_empty() { off } else { ds2[i] + off }).boxed(),
        ]
        .boxed();
        let shrunk = {
            let mut f = |d: &i128, counting: bool| -> Option<String> {
                if *d < lo || *d > hi {
                    return None;
                }
                if counting {
                    ctx.eval();
                    ctx.class("random");
                    if interesting_prog && near(*d) {
                        ctx.nontrivial(&d.to_le_bytes());
                    }
                }
                eval::<E>(&m, *d).err().map(|x| x.0)
            };
            prop_run(seed, cases, &strat, &mut f)
        };
        if let Some(d) = shrunk {
            if let Err((k, e, a)) = eval::<E>(&m, d) {
                ctx.fail(&k, json!({"d": d.to_string(), "class": "random", "repr": repr, "shrunk": true}), e, a);
            }
        }
    }
    ctx.class(&format!("repr={}", repr.as_deref().unwrap_or("none")));
    ctx.sample(json!({"enum": spec.name, "repr": repr, "discriminants": ds.iter().map(|d| d.to_string()).collect::<Vec<_>>(),
        "disabled": spec.variants.iter().map(|v| v.disabled()).collect::<Vec<_>>(),
        "exprs": spec.variants.iter().map(|v| v.disc.as_ref().map(|d| d.text.clone())).collect::<Vec<_>>()}));
}
