// Generates the `#[path]` includes of strum_macros' helper and macro modules from REPO_ROOT
// (default /repo), so the in-process harness always compiles the current working tree.
use std::io::Write;
fn main() {
    let repo = std::env::var("REPO_ROOT").unwrap_or_else(|_| "/repo".to_string());
    println!("cargo:rerun-if-env-changed=REPO_ROOT");
    let out = std::path::PathBuf::from(std::env::var("OUT_DIR").unwrap()).join("strum_src.rs");
    let mut f = std::fs::File::create(&out).unwrap();
    writeln!(f, "#[path = \"{}/strum_macros/src/helpers/mod.rs\"]\npub mod helpers;", repo).unwrap();
    writeln!(f, "#[path = \"{}/strum_macros/src/macros/mod.rs\"]\npub mod macros;", repo).unwrap();
}
