// Generates (a) the `#[path]` includes of strum_macros' helper and macro modules from REPO_ROOT (default /repo),
// so the in-process harness always compiles the current working tree, and (b) the dispatch from a derive's
// name to the expression its entry point in strum_macros/src/lib.rs evaluates, read from that file itself: an
// internal function or module may be renamed, or the entry points restructured, without blinding this engine.
use std::io::Write;

const FALLBACK: &[(&str, &str)] = &[
    ("EnumString", "macros::from_string::from_string_inner(ast)"),
    ("AsRefStr", "macros::as_ref_str::as_ref_str_inner(ast)"),
    ("VariantNames", "macros::enum_variant_names::enum_variant_names_inner(ast)"),
    ("VariantArray", "macros::enum_variant_array::static_variants_array_inner(ast)"),
    ("AsStaticStr", "macros::as_ref_str::as_static_str_inner(ast, &macros::as_ref_str::GenerateTraitVariant::AsStaticStr)"),
    ("IntoStaticStr", "macros::as_ref_str::as_static_str_inner(ast, &macros::as_ref_str::GenerateTraitVariant::From)"),
    ("ToString", "macros::to_string::to_string_inner(ast)"),
    ("Display", "macros::display::display_inner(ast)"),
    ("EnumIter", "macros::enum_iter::enum_iter_inner(ast)"),
    ("EnumIs", "macros::enum_is::enum_is_inner(ast)"),
    ("EnumTryAs", "macros::enum_try_as::enum_try_as_inner(ast)"),
    ("EnumTable", "macros::enum_table::enum_table_inner(ast)"),
    ("FromRepr", "macros::from_repr::from_repr_inner(ast)"),
    ("EnumMessage", "macros::enum_messages::enum_message_inner(ast)"),
    ("EnumProperty", "macros::enum_properties::enum_properties_inner(ast)"),
    ("EnumDiscriminants", "macros::enum_discriminants::enum_discriminants_inner(ast)"),
    ("EnumCount", "macros::enum_count::enum_count_inner(ast)"),
];

/// the expression `macros::path::to::f(args)` (or a bare `macros::path::to::f`) that follows `from` in `text`
fn entry_expr(text: &str, mods: &[String]) -> Option<String> {
    // the first path into one of the crate's own modules after the attribute
    let start = mods.iter().filter_map(|m| text.find(&format!("{}::", m))).min()?;
    let b = text.as_bytes();
    let mut i = start;
    while i < b.len() && (b[i].is_ascii_alphanumeric() || b[i] == b'_' || b[i] == b':') {
        i += 1;
    }
    let path = text[start..i].trim_end_matches(':').to_string();
    let mut j = i;
    while j < b.len() && b[j].is_ascii_whitespace() {
        j += 1;
    }
    if j < b.len() && b[j] == b'(' {
        let mut depth = 0i32;
        let mut k = j;
        while k < b.len() {
            match b[k] {
                b'(' => depth += 1,
                b')' => {
                    depth -= 1;
                    if depth == 0 {
                        break;
                    }
                }
                _ => {}
            }
            k += 1;
        }
        if k >= b.len() {
            return None;
        }
        let args: String = text[j + 1..k].split_whitespace().collect::<Vec<_>>().join(" ");
        let args = args.replace("&ast", "ast").replace("& ast", "ast");
        let args = args.trim().trim_end_matches(',').trim().to_string();
        if !(args == "ast" || args.starts_with("ast,")) {
            return None;
        }
        Some(format!("{}({})", path, args))
    } else {
        Some(format!("{}(ast)", path))
    }
}

fn main() {
    let repo = std::env::var("REPO_ROOT").unwrap_or_else(|_| "/repo".to_string());
    println!("cargo:rerun-if-env-changed=REPO_ROOT");
    let lib_rs = format!("{}/strum_macros/src/lib.rs", repo);
    println!("cargo:rerun-if-changed={}", lib_rs);
    let out_dir = std::path::PathBuf::from(std::env::var("OUT_DIR").unwrap());
    let mut f = std::fs::File::create(out_dir.join("strum_src.rs")).unwrap();
    let text = std::fs::read_to_string(&lib_rs).unwrap_or_default();
    // the crate's own top-level modules (`mod helpers;`, `mod macros;` today), wherever their files are
    let mut mods: Vec<String> = Vec::new();
    for line in text.lines() {
        let l = line.trim().trim_start_matches("pub(crate) ").trim_start_matches("pub ");
        if let Some(rest) = l.strip_prefix("mod ") {
            if let Some(name) = rest.strip_suffix(';') {
                let name = name.trim();
                if !name.is_empty() && name.chars().all(|c| c.is_ascii_alphanumeric() || c == '_') {
                    mods.push(name.to_string());
                }
            }
        }
    }
    if mods.is_empty() {
        mods = vec!["helpers".to_string(), "macros".to_string()];
    }
    for m in &mods {
        let dir = format!("{}/strum_macros/src/{}/mod.rs", repo, m);
        let file = format!("{}/strum_macros/src/{}.rs", repo, m);
        let path = if std::path::Path::new(&dir).exists() { dir } else { file };
        writeln!(f, "#[path = \"{}\"]\npub mod {};", path, m).unwrap();
    }

    let mut found: Vec<(String, String)> = Vec::new();
    let chunks: Vec<&str> = text.split("#[proc_macro_derive(").collect();
    for c in chunks.iter().skip(1) {
        let name: String = c.chars().take_while(|ch| ch.is_ascii_alphanumeric() || *ch == '_').collect();
        if let Some(e) = entry_expr(c, &mods) {
            found.push((name, e));
        }
    }
    let mut d = std::fs::File::create(out_dir.join("dispatch.rs")).unwrap();
    writeln!(d, "fn call(derive: &str, ast: &DeriveInput) -> syn::Result<TokenStream> {{\n    match derive {{").unwrap();
    let mut how = Vec::new();
    for (name, fb) in FALLBACK {
        let e = found.iter().find(|(n, _)| n == name).map(|(_, e)| e.clone());
        how.push(format!("{}={}", name, if e.is_some() { "lib.rs" } else { "built-in" }));
        writeln!(d, "        {:?} => {},", name, e.unwrap_or_else(|| fb.to_string())).unwrap();
    }
    writeln!(d, "        other => panic!(\"unknown derive {{}}\", other),\n    }}\n}}").unwrap();
    writeln!(d, "pub const DISPATCH_SOURCE: &str = {:?};", how.join(" ")).unwrap();
}
