//! Engine B: strum_macros' macro bodies compiled into an ordinary library.
#![allow(dead_code, unused_imports, clippy::all)]

include!(concat!(env!("OUT_DIR"), "/strum_src.rs"));

use proc_macro2::TokenStream;
use syn::DeriveInput;

pub const DERIVES: [&str; 17] = [
    "EnumString", "AsRefStr", "VariantNames", "VariantArray", "AsStaticStr", "IntoStaticStr", "ToString", "Display",
    "EnumIter", "EnumIs", "EnumTryAs", "EnumTable", "FromRepr", "EnumMessage", "EnumProperty", "EnumDiscriminants", "EnumCount",
];

#[derive(Debug, Clone, PartialEq)]
pub enum Outcome {
    /// generated tokens
    Ok(String),
    /// syn::Error message and (line, column) of its span start
    Err(String, (usize, usize)),
    /// the text is not a DeriveInput at all (rustc would reject it before the macro runs)
    NotAnItem(String),
    Panic(String),
}

fn call(derive: &str, ast: &DeriveInput) -> syn::Result<TokenStream> {
    use macros::as_ref_str::GenerateTraitVariant;
    match derive {
        "EnumString" => macros::from_string::from_string_inner(ast),
        "AsRefStr" => macros::as_ref_str::as_ref_str_inner(ast),
        "VariantNames" => macros::enum_variant_names::enum_variant_names_inner(ast),
        "VariantArray" => macros::enum_variant_array::static_variants_array_inner(ast),
        "AsStaticStr" => macros::as_ref_str::as_static_str_inner(ast, &GenerateTraitVariant::AsStaticStr),
        "IntoStaticStr" => macros::as_ref_str::as_static_str_inner(ast, &GenerateTraitVariant::From),
        "ToString" => macros::to_string::to_string_inner(ast),
        "Display" => macros::display::display_inner(ast),
        "EnumIter" => macros::enum_iter::enum_iter_inner(ast),
        "EnumIs" => macros::enum_is::enum_is_inner(ast),
        "EnumTryAs" => macros::enum_try_as::enum_try_as_inner(ast),
        "EnumTable" => macros::enum_table::enum_table_inner(ast),
        "FromRepr" => macros::from_repr::from_repr_inner(ast),
        "EnumMessage" => macros::enum_messages::enum_message_inner(ast),
        "EnumProperty" => macros::enum_properties::enum_properties_inner(ast),
        "EnumDiscriminants" => macros::enum_discriminants::enum_discriminants_inner(ast),
        "EnumCount" => macros::enum_count::enum_count_inner(ast),
        other => panic!("unknown derive {}", other),
    }
}

pub fn panic_msg(e: Box<dyn std::any::Any + Send>) -> String {
    if let Some(s) = e.downcast_ref::<&str>() {
        s.to_string()
    } else if let Some(s) = e.downcast_ref::<String>() {
        s.clone()
    } else {
        "<non-string panic>".into()
    }
}

/// Run one derive on source text, the way lib.rs does (parse as DeriveInput, call *_inner).
pub fn expand(derive: &str, src: &str) -> Outcome {
    let r = std::panic::catch_unwind(|| {
        let ast: DeriveInput = match syn::parse_str(src) {
            Ok(a) => a,
            Err(e) => return Outcome::NotAnItem(e.to_string()),
        };
        match call(derive, &ast) {
            Ok(ts) => Outcome::Ok(ts.to_string()),
            Err(e) => {
                let st = e.span().start();
                Outcome::Err(e.to_string(), (st.line, st.column))
            }
        }
    });
    match r {
        Ok(o) => o,
        Err(p) => Outcome::Panic(panic_msg(p)),
    }
}

/// string literals of a token stream, in order (used to read VariantNames back)
pub fn string_literals(tokens: &str) -> Vec<String> {
    fn walk(ts: TokenStream, out: &mut Vec<String>) {
        for t in ts {
            match t {
                proc_macro2::TokenTree::Group(g) => walk(g.stream(), out),
                proc_macro2::TokenTree::Literal(l) => {
                    if let Ok(s) = syn::parse_str::<syn::LitStr>(&l.to_string()) {
                        out.push(s.value());
                    }
                }
                _ => {}
            }
        }
    }
    let mut out = Vec::new();
    if let Ok(ts) = tokens.parse::<TokenStream>() {
        walk(ts, &mut out);
    }
    out
}

/// does the expansion parse as a sequence of items?
pub fn parses_as_items(tokens: &str) -> bool {
    syn::parse_str::<syn::File>(tokens).is_ok()
}

/// from_repr_inner converts a string through proc_macro::TokenStream (the compiler's own API,
/// unavailable outside a real macro expansion), so FromRepr cannot run in-process; it is covered
/// by the rustc layers only.
pub const NOT_IN_PROCESS: [&str; 1] = ["FromRepr"];

/// C20 oracle for one (case, derive) cell: Some((kind, expected, actual)) on a violation.
pub fn judge(c: &vmodel::malformed::Case, dname: &str) -> (Outcome, Option<(String, String, String)>) {
    let src = c.source.replace("ITEM", "Item");
    let out = expand(dname, &src);
    let required = c.must_reject.iter().any(|x| x == dname);
    let must_accept = c.must_accept.iter().any(|x| x == dname);
    let v = match &out {
        Outcome::Panic(p) => Some((format!("macro-panic:{}", dname), "Ok or Err, never a panic".to_string(), format!("panicked: {}", p))),
        Outcome::NotAnItem(e) => {
            if required || must_accept {
                Some(("harness:case-does-not-parse".to_string(), "a DeriveInput".to_string(), e.clone()))
            } else {
                None
            }
        }
        Outcome::Ok(tokens) => {
            if required {
                Some((format!("silently-accepted:{}:{}", c.rule, dname), "a compile error".to_string(), "an implementation was generated".to_string()))
            } else if must_accept && !parses_as_items(tokens) {
                Some((format!("expansion-not-items:{}", dname), "tokens that parse as items".to_string(), tokens.chars().take(300).collect()))
            } else {
                None
            }
        }
        Outcome::Err(msg, _) => {
            if must_accept {
                Some((format!("valid-input-rejected:{}", dname), "Ok".to_string(), msg.clone()))
            } else {
                None
            }
        }
    };
    (out, v)
}

/// token-level mutations of an item: only "never panics" is demanded of the result
pub fn mutate(rg: &mut vmodel::gen::Rg, src: &str) -> String {
    let toks: Vec<&str> = src.split_inclusive(|c: char| c == ' ' || c == ',' || c == '(' || c == ')' || c == '=' || c == '\n').collect();
    let mut t: Vec<String> = toks.iter().map(|s| s.to_string()).collect();
    let frag = [
        "disabled", "default", "transparent", "serialize = \"x\"", "to_string = \"{0}\"", "props(a = 1.0)", "props(a = 'c')", "default_with = \"a::b\"",
        "#[strum(default)]", "#[strum(disabled, disabled)]", "1.5", "'x'", "\"{\"", "= ", "(", ")", ",", "<'a>", "r#type", "#[repr(u8)]", "= 7", "\"\"",
        "#[strum_discriminants(name(r#X))]", "ascii_case_insensitive = false", "serialize_all = \"Snake\"", "message", "use_phf",
    ];
    for _ in 0..rg.range(1, 3) {
        if t.is_empty() {
            break;
        }
        let p = rg.below(t.len());
        match rg.below(4) {
            0 => {
                t.remove(p);
            }
            1 => {
                let x = t[p].clone();
                t.insert(p, x);
            }
            2 => {
                t.insert(p, format!("{} ", rg.pick(&frag)));
            }
            _ => {
                let q = rg.below(t.len());
                t.swap(p, q);
            }
        }
    }
    t.concat()
}

pub fn violation_json(kind: &str, derive: &str, src: &str, detail: &str) -> String {
    serde_json::json!({"kind": kind, "input": {"derive": derive, "source": src, "rule": "fuzz"}, "actual": detail}).to_string()
}
