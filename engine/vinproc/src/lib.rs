//! Engine B: strum_macros' macro bodies compiled into an ordinary library.
#![allow(dead_code, unused_imports, clippy::all)]

include!(concat!(env!("OUT_DIR"), "/strum_src.rs"));

use proc_macro2::TokenStream;
use syn::DeriveInput;

pub const DERIVES: [&str; 17] = [
    "EnumString", "AsRefStr", "VariantNames", "VariantArray", "AsStaticStr", "IntoStaticStr", "ToString", "Display",
    "EnumIter", "EnumIs", "EnumTryAs", "EnumTable", "FromRepr", "EnumMessage", "EnumProperty", "EnumDiscriminants", "EnumCount",
];

#[derive(Debug, Clone, PartialEq)]
pub enum Outcome {
    /// generated tokens
    Ok(String),
    /// syn::Error message and (line, column) of its span start
    Err(String, (usize, usize)),
    /// the text is not a DeriveInput at all (rustc would reject it before the macro runs)
    NotAnItem(String),
    Panic(String),
}

fn call(derive: &str, ast: &DeriveInput) -> syn::Result<TokenStream> {
    use macros::as_ref_str::GenerateTraitVariant;
    match derive {
        "EnumString" => macros::from_string::from_string_inner(ast),
        "AsRefStr" => macros::as_ref_str::as_ref_str_inner(ast),
        "VariantNames" => macros::enum_variant_names::enum_variant_names_inner(ast),
        "VariantArray" => macros::enum_variant_array::static_variants_array_inner(ast),
        "AsStaticStr" => macros::as_ref_str::as_static_str_inner(ast, &GenerateTraitVariant::AsStaticStr),
        "IntoStaticStr" => macros::as_ref_str::as_static_str_inner(ast, &GenerateTraitVariant::From),
        "ToString" => macros::to_string::to_string_inner(ast),
        "Display" => macros::display::display_inner(ast),
        "EnumIter" => macros::enum_iter::enum_iter_inner(ast),
        "EnumIs" => macros::enum_is::enum_is_inner(ast),
        "EnumTryAs" => macros::enum_try_as::enum_try_as_inner(ast),
        "EnumTable" => macros::enum_table::enum_table_inner(ast),
        "FromRepr" => macros::from_repr::from_repr_inner(ast),
        "EnumMessage" => macros::enum_messages::enum_message_inner(ast),
        "EnumProperty" => macros::enum_properties::enum_properties_inner(ast),
        "EnumDiscriminants" => macros::enum_discriminants::enum_discriminants_inner(ast),
        "EnumCount" => macros::enum_count::enum_count_inner(ast),
        other => panic!("unknown derive {}", other),
    }
}

pub fn panic_msg(e: Box<dyn std::any::Any + Send>) -> String {
    if let Some(s) = e.downcast_ref::<&str>() {
        s.to_string()
    } else if let Some(s) = e.downcast_ref::<String>() {
        s.clone()
    } else {
        "<non-string panic>".into()
    }
}

/// Run one derive on source text, the way lib.rs does (parse as DeriveInput, call *_inner).
pub fn expand(derive: &str, src: &str) -> Outcome {
    let r = std::panic::catch_unwind(|| {
        let ast: DeriveInput = match syn::parse_str(src) {
            Ok(a) => a,
            Err(e) => return Outcome::NotAnItem(e.to_string()),
        };
        match call(derive, &ast) {
            Ok(ts) => Outcome::Ok(ts.to_string()),
            Err(e) => {
                let st = e.span().start();
                Outcome::Err(e.to_string(), (st.line, st.column))
            }
        }
    });
    match r {
        Ok(o) => o,
        Err(p) => Outcome::Panic(panic_msg(p)),
    }
}

/// string literals of a token stream, in order (used to read VariantNames back)
pub fn string_literals(tokens: &str) -> Vec<String> {
    fn walk(ts: TokenStream, out: &mut Vec<String>) {
        for t in ts {
            match t {
                proc_macro2::TokenTree::Group(g) => walk(g.stream(), out),
                proc_macro2::TokenTree::Literal(l) => {
                    if let Ok(s) = syn::parse_str::<syn::LitStr>(&l.to_string()) {
                        out.push(s.value());
                    }
                }
                _ => {}
            }
        }
    }
    let mut out = Vec::new();
    if let Ok(ts) = tokens.parse::<TokenStream>() {
        walk(ts, &mut out);
    }
    out
}

/// does the expansion parse as a sequence of items?
pub fn parses_as_items(tokens: &str) -> bool {
    syn::parse_str::<syn::File>(tokens).is_ok()
}
