//! vinproc <c07|c20> <tier> <seed> <out.json> [--replay <file>]   |   vinproc expand <Derive> <file>
//! Writes a JSON report: {evaluations, nontrivial, classes, exhaustive, samples, failures}.

use serde_json::{json, Value};
use std::collections::{BTreeMap, BTreeSet};
use vinproc::{expand, Outcome};
use vmodel::gen::Rg;
use vmodel::{malformed, model};

#[derive(Default)]
struct Rep {
    evaluations: u64,
    nontrivial: BTreeSet<u64>,
    classes: BTreeMap<String, u64>,
    exhaustive: BTreeMap<String, u64>,
    samples: Vec<Value>,
    failures: Vec<Value>,
}

impl Rep {
    fn class(&mut self, c: &str) {
        *self.classes.entry(c.to_string()).or_insert(0) += 1;
    }
    fn fail(&mut self, kind: &str, input: Value, expected: String, actual: String) {
        if self.failures.iter().any(|f| f["kind"] == kind) || self.failures.len() >= 12 {
            return;
        }
        self.failures.push(json!({"kind": kind, "input": input, "expected": expected, "actual": actual}));
    }
    fn merge(&mut self, o: Rep) {
        self.evaluations += o.evaluations;
        self.nontrivial.extend(o.nontrivial);
        for (k, v) in o.classes {
            *self.classes.entry(k).or_insert(0) += v;
        }
        for (k, v) in o.exhaustive {
            *self.exhaustive.entry(k).or_insert(0) += v;
        }
        for s in o.samples {
            if self.samples.len() < 8 {
                self.samples.push(s);
            }
        }
        for f in o.failures {
            if !self.failures.iter().any(|g| g["kind"] == f["kind"]) {
                self.failures.push(f);
            }
        }
    }
    fn to_json(&self) -> Value {
        json!({"evaluations": self.evaluations, "nontrivial": self.nontrivial.len(), "classes": self.classes,
               "exhaustive": self.exhaustive, "samples": self.samples, "failures": self.failures})
    }
}

// ---------------------------------------------------------------------------------------------
// C07 layer 1: exhaustive identifiers x all accepted styles through enum_variant_names_inner

fn valid_ident(s: &str) -> bool {
    let c0 = s.chars().next().unwrap();
    !(c0.is_ascii_digit()) && s != "_"
}

fn all_idents(alpha: &[char], max_len: usize) -> Vec<String> {
    let mut out = Vec::new();
    let mut cur: Vec<String> = vec![String::new()];
    for _ in 0..max_len {
        let mut next = Vec::with_capacity(cur.len() * alpha.len());
        for p in &cur {
            for c in alpha {
                let mut s = p.clone();
                s.push(*c);
                next.push(s);
            }
        }
        for s in &next {
            if valid_ident(s) {
                out.push(s.clone());
            }
        }
        cur = next;
    }
    out
}

fn ident_nontrivial(id: &str) -> bool {
    let cs: Vec<char> = id.chars().collect();
    model::words(id).len() >= 2 || cs.iter().any(|c| c.is_ascii_digit()) || cs.windows(2).any(|w| w[0].is_uppercase() && w[1].is_uppercase())
}

fn check_idents_chunk(idents: &[String], style: Option<&str>, rep: &mut Rep) {
    let mut src = String::new();
    if let Some(st) = style {
        src.push_str(&format!("#[strum(serialize_all = {:?})]\n", st));
    }
    src.push_str("enum E {\n");
    for id in idents {
        src.push_str(id);
        src.push_str(",\n");
    }
    src.push_str("}\n");
    match expand("VariantNames", &src) {
        Outcome::Ok(tokens) => {
            let lits = vinproc::string_literals(&tokens);
            if lits.len() != idents.len() {
                rep.fail("case:variant-count", json!({"style": style, "first_ident": idents[0]}), format!("{} names", idents.len()), format!("{} names", lits.len()));
                return;
            }
            for (id, got) in idents.iter().zip(lits.iter()) {
                rep.evaluations += 1;
                let want = model::case(id, style);
                if ident_nontrivial(id) {
                    rep.nontrivial.insert(vmodel::fnv(format!("{}|{:?}", id, style).as_bytes()));
                }
                if &want != got {
                    rep.fail(&format!("case:{}", style.unwrap_or("none")), json!({"ident": id, "style": style}), format!("{:?}", want), format!("{:?}", got));
                }
            }
        }
        other => rep.fail("case:expansion-failed", json!({"style": style, "first_ident": idents[0]}), "Ok".into(), format!("{:?}", other)),
    }
}

fn c07(tier: &str, seed: u64, replay: Option<Value>) -> Rep {
    let mut rep = Rep::default();
    if let Some(r) = replay {
        let id = r["input"]["ident"].as_str().unwrap().to_string();
        let st = r["input"]["style"].as_str().map(|s| s.to_string());
        check_idents_chunk(&[id], st.as_deref(), &mut rep);
        return rep;
    }
    let thorough = tier == "thorough";
    let sets: Vec<(Vec<char>, usize)> = if thorough {
        vec![(vec!['a', 'b', 'A', 'B', '1', '_'], 7), (vec!['a', 'A', '1', '_'], 9), (vec!['a', 'Z', '9', 'é', 'É', '_'], 5), (vec!['r', 'R', 'x', '2', '_'], 6)]
    } else {
        vec![(vec!['a', 'b', 'A', 'B', '1', '_'], 6), (vec!['a', 'A', '1', '_'], 8), (vec!['a', 'Z', '9', 'é', 'É', '_'], 4), (vec!['r', 'R', 'x', '2', '_'], 5)]
    };
    let mut idents: Vec<String> = Vec::new();
    for (alpha, n) in &sets {
        let v = all_idents(alpha, *n);
        rep.exhaustive.insert(format!("all valid identifiers over {:?} up to length {} (x 16 styles + none)", alpha.iter().collect::<String>(), n), v.len() as u64);
        idents.extend(v);
    }
    idents.sort();
    idents.dedup();
    // generated identifiers over a wider alphabet (proptest-seeded)
    let mut rg = Rg::from_seed(vmodel::derive_seed(seed, "c07-idents", 0, 0));
    // every ASCII letter and digit (a special-cased letter must not escape), plus a few non-ASCII
    let wide: Vec<char> = "abcdefghijklmnopqrstuvwxyzABCDEFGHIJKLMNOPQRSTUVWXYZ0123456789__éÉñÑ日".chars().collect();
    let nrand = if thorough { 400_000 } else { 60_000 };
    let mut extra = BTreeSet::new();
    for _ in 0..nrand {
        let len = rg.range(1, 14);
        let s: String = (0..len).map(|_| *rg.pick(&wide)).collect();
        if valid_ident(&s) && syn::parse_str::<syn::Ident>(&s).is_ok() {
            extra.insert(s);
        }
    }
    rep.classes.insert("generated identifiers (wide alphabet, len <= 14)".into(), extra.len() as u64);
    idents.extend(extra);
    rep.samples.push(json!({"idents": [idents[idents.len() / 3], idents[idents.len() / 2], idents[idents.len() - 5]], "styles": model::STYLES}));
    let chunks: Vec<Vec<String>> = idents.chunks(500).map(|c| c.to_vec()).collect();
    let nthreads = 16;
    let mut handles = Vec::new();
    let chunks = std::sync::Arc::new(chunks);
    for t in 0..nthreads {
        let chunks = chunks.clone();
        handles.push(std::thread::spawn(move || {
            let mut rep = Rep::default();
            for (i, ch) in chunks.iter().enumerate() {
                if i % nthreads != t {
                    continue;
                }
                for st in model::STYLES.iter() {
                    check_idents_chunk(ch, Some(st), &mut rep);
                }
                check_idents_chunk(ch, None, &mut rep);
            }
            rep
        }));
    }
    for h in handles {
        rep.merge(h.join().unwrap());
    }
    // rejected style strings are C20's business; accepted ones must all be accepted:
    for st in model::STYLES.iter() {
        rep.class(&format!("style={}", st));
    }
    rep
}

// ---------------------------------------------------------------------------------------------
// C20 layer 2: in-process

fn check_case(c: &malformed::Case, rep: &mut Rep, derives: &[&str]) {
    for dname in derives {
        if vinproc::NOT_IN_PROCESS.contains(dname) {
            continue;
        }
        rep.evaluations += 1;
        let required = c.must_reject.iter().any(|x| x == dname);
        let must_accept = c.must_accept.iter().any(|x| x == dname);
        if required {
            rep.nontrivial.insert(vmodel::fnv(format!("{}|{}|{}", c.rule, dname, c.variation).as_bytes()));
        }
        let (out, v) = vinproc::judge(c, dname);
        match &out {
            Outcome::NotAnItem(_) => rep.class("not-an-item"),
            Outcome::Ok(_) => rep.class(if must_accept { "control-accepted" } else { "accepted" }),
            Outcome::Err(..) => rep.class(if required { "required-reject" } else { "rejected" }),
            Outcome::Panic(_) => rep.class("panic"),
        }
        if let Some((kind, e, a)) = v {
            let input = json!({"rule": c.rule, "variation": c.variation, "derive": dname, "source": c.source.replace("ITEM", "Item")});
            rep.fail(&kind, input, e, a);
        }
    }
}

use vinproc::mutate;

fn c20(tier: &str, seed: u64, replay: Option<Value>) -> Rep {
    let mut rep = Rep::default();
    if let Some(r) = replay {
        let src = r["input"]["source"].as_str().unwrap().to_string();
        let dn = r["input"]["derive"].as_str().unwrap().to_string();
        let c = malformed::Case {
            rule: r["input"]["rule"].as_str().unwrap_or("replay").to_string(),
            variation: "replay".into(),
            source: src,
            must_reject: if r["kind"].as_str().unwrap_or("").starts_with("silently-accepted") { vec![dn.clone()] } else { vec![] },
            must_accept: if r["kind"].as_str().unwrap_or("").starts_with("valid-input-rejected") { vec![dn.clone()] } else { vec![] },
        };
        check_case(&c, &mut rep, &[dn.as_str()]);
        return rep;
    }
    let thorough = tier == "thorough";
    let per_rule = if thorough { 20_000 } else { 1_500 };
    let nmut = if thorough { 2_000_000 } else { 300_000 };
    let nthreads = 16usize;
    let mut handles = Vec::new();
    for t in 0..nthreads {
        let thorough = thorough;
        handles.push(std::thread::spawn(move || {
            let _ = thorough;
            let mut rep = Rep::default();
            let mut rg = Rg::from_seed(vmodel::derive_seed(seed, "c20-inproc", t as u64, 0));
            for (ri, rule) in malformed::RULES.iter().enumerate() {
                for k in 0..per_rule {
                    if (ri * per_rule + k) % nthreads != t {
                        continue;
                    }
                    let c = malformed::gen_case(&mut rg, rule);
                    rep.class(&format!("rule:{}", rule));
                    if k < 2 && t == ri % nthreads {
                        rep.samples.push(json!({"rule": c.rule, "variation": c.variation, "source": c.source, "must_reject": c.must_reject}));
                    }
                    check_case(&c, &mut rep, &malformed::ALL_DERIVES);
                }
            }
            // mutations of valid controls and of rule cases
            let ctrls = malformed::controls();
            for k in 0..nmut / nthreads {
                let base = if k % 3 == 0 {
                    ctrls[rg.below(ctrls.len())].source.clone()
                } else {
                    let r = malformed::RULES[rg.below(malformed::RULES.len())];
                    malformed::gen_case(&mut rg, r).source
                };
                let m = mutate(&mut rg, &base);
                let c = malformed::Case { rule: "mutated".into(), variation: "token mutation".into(), source: m, must_reject: vec![], must_accept: vec![] };
                let dn = malformed::ALL_DERIVES[rg.below(17)];
                rep.class("mutated");
                check_case(&c, &mut rep, &[dn]);
            }
            rep
        }));
    }
    for h in handles {
        rep.merge(h.join().unwrap());
    }
    for c in malformed::controls() {
        let acc: Vec<&str> = c.must_accept.iter().map(|s| s.as_str()).collect();
        check_case(&c, &mut rep, &acc);
    }
    rep
}

fn main() {
    let args: Vec<String> = std::env::args().collect();
    if args.len() >= 4 && args[1] == "expand" {
        let src = std::fs::read_to_string(&args[3]).unwrap();
        println!("{:?}", vinproc::expand(&args[2], &src));
        return;
    }
    if args.len() >= 4 && args[1] == "accepts" {
        // does each derive accept the item? {"items": [{"name", "derives", "source"}]} -> {name: {derive: verdict}}
        std::panic::set_hook(Box::new(|_| {}));
        let inp: Value = serde_json::from_str(&std::fs::read_to_string(&args[2]).unwrap()).unwrap();
        let mut out = serde_json::Map::new();
        for it in inp["items"].as_array().unwrap() {
            let mut m = serde_json::Map::new();
            for d in it["derives"].as_array().unwrap() {
                let d = d.as_str().unwrap();
                let verdict = if vinproc::NOT_IN_PROCESS.contains(&d) {
                    "na".to_string()
                } else {
                    match expand(d, it["source"].as_str().unwrap()) {
                        Outcome::Ok(_) => "ok".to_string(),
                        Outcome::Err(m, _) => format!("err: {}", m),
                        Outcome::NotAnItem(m) => format!("notitem: {}", m),
                        Outcome::Panic(m) => format!("panic: {}", m),
                    }
                };
                m.insert(d.to_string(), json!(verdict));
            }
            out.insert(it["name"].as_str().unwrap().to_string(), Value::Object(m));
        }
        std::fs::write(&args[3], serde_json::to_string(&Value::Object(out)).unwrap()).unwrap();
        return;
    }
    if args.len() < 5 {
        eprintln!("usage: vinproc <c07|c20> <tier> <seed> <out.json> [--replay file]");
        std::process::exit(2);
    }
    // expected panics are caught; keep stderr quiet
    std::panic::set_hook(Box::new(|_| {}));
    let seed: u64 = args[3].parse().unwrap();
    let replay: Option<Value> = if args.len() >= 7 && args[5] == "--replay" { Some(serde_json::from_str(&std::fs::read_to_string(&args[6]).unwrap()).unwrap()) } else { None };
    let rep = match args[1].as_str() {
        "c07" => c07(&args[2], seed, replay),
        "c20" => c20(&args[2], seed, replay),
        _ => std::process::exit(2),
    };
    std::fs::write(&args[4], serde_json::to_string(&rep.to_json()).unwrap()).unwrap();
}
