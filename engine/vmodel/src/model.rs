//! Reference model, written from the property statements and strum's documentation.
//! Nothing here calls heck or any strum code.

use crate::spec::*;

/// The accepted `serialize_all` strings: 11 documented + 5 legacy aliases = 16 distinct strings
/// (the property text says 17; strum's parser accepts exactly these 16).
pub const STYLES: [&str; 16] = [
    "camelCase",
    "PascalCase",
    "kebab-case",
    "snake_case",
    "SCREAMING_SNAKE_CASE",
    "SCREAMING-KEBAB-CASE",
    "lowercase",
    "UPPERCASE",
    "title_case",
    "mixed_case",
    "Train-Case",
    "camel_case",
    "snek_case",
    "kebab_case",
    "shouty_snake_case",
    "shouty_snek_case",
];

#[derive(Clone, Copy, PartialEq, Eq, Debug)]
enum Cls {
    None,
    Lower,
    Upper,
}

/// Split an identifier into words: at every non-alphanumeric character (dropped), between a
/// lowercase(-class) character and a following uppercase letter, and before the last uppercase
/// letter of an uppercase run that is followed by a lowercase letter. Caseless characters
/// (digits, CJK, ...) inherit the class of the preceding character of the same piece (A1).
pub fn words(ident: &str) -> Vec<String> {
    let mut out = Vec::new();
    let mut piece: Vec<char> = Vec::new();
    let flush_piece = |piece: &mut Vec<char>, out: &mut Vec<String>| {
        if piece.is_empty() {
            return;
        }
        let n = piece.len();
        // pass 1: classes
        let mut cls = vec![Cls::None; n];
        for i in 0..n {
            let c = piece[i];
            cls[i] = if c.is_lowercase() {
                Cls::Lower
            } else if c.is_uppercase() {
                Cls::Upper
            } else if i > 0 {
                cls[i - 1]
            } else {
                Cls::None
            };
        }
        // pass 2: cut[i] == true means a word starts at i
        let mut cut = vec![false; n + 1];
        cut[0] = true;
        cut[n] = true;
        for i in 0..n.saturating_sub(1) {
            // lower -> Upper
            if cls[i] == Cls::Lower && piece[i + 1].is_uppercase() {
                cut[i + 1] = true;
            }
            // end of an acronym: ..U [U] l
            if i >= 1
                && piece[i].is_uppercase()
                && piece[i + 1].is_lowercase()
                && cls[i - 1] == Cls::Upper
                && !cut[i]
            {
                cut[i] = true;
            }
        }
        let mut start = 0;
        for i in 1..=n {
            if cut[i] {
                out.push(piece[start..i].iter().collect());
                start = i;
            }
        }
        piece.clear();
    };
    for c in ident.chars() {
        if c.is_alphanumeric() {
            piece.push(c);
        } else {
            flush_piece(&mut piece, &mut out);
        }
    }
    flush_piece(&mut piece, &mut out);
    out
}

fn lower(w: &str) -> String {
    w.to_lowercase()
}
fn upper(w: &str) -> String {
    w.to_uppercase()
}
fn cap(w: &str) -> String {
    let mut it = w.chars();
    match it.next() {
        None => String::new(),
        Some(c) => c.to_uppercase().collect::<String>() + &it.as_str().to_lowercase(),
    }
}

#[derive(Clone, Copy, PartialEq, Eq, Debug)]
pub enum Style {
    Camel,
    Pascal,
    Kebab,
    Snake,
    ScreamingSnake,
    ScreamingKebab,
    Lower,
    Upper,
    Title,
    Mixed,
    Train,
}

pub fn style_of(s: &str) -> Option<Style> {
    Some(match s {
        "camelCase" => Style::Camel,
        "PascalCase" | "camel_case" => Style::Pascal,
        "kebab-case" | "kebab_case" => Style::Kebab,
        "snake_case" | "snek_case" => Style::Snake,
        "SCREAMING_SNAKE_CASE" | "shouty_snake_case" | "shouty_snek_case" => Style::ScreamingSnake,
        "SCREAMING-KEBAB-CASE" => Style::ScreamingKebab,
        "lowercase" => Style::Lower,
        "UPPERCASE" => Style::Upper,
        "title_case" => Style::Title,
        "mixed_case" => Style::Mixed,
        "Train-Case" => Style::Train,
        _ => return None,
    })
}

/// case(ident, style). `None` style: identifier unchanged.
pub fn case(ident: &str, style: Option<&str>) -> String {
    let st = match style {
        None => return ident.to_string(),
        Some(s) => style_of(s).expect("model::case called with an unaccepted style"),
    };
    let ws = words(ident);
    let join = |f: &dyn Fn(&str) -> String, sep: &str| -> String {
        ws.iter().map(|w| f(w)).collect::<Vec<_>>().join(sep)
    };
    match st {
        Style::Snake => join(&lower, "_"),
        Style::Kebab => join(&lower, "-"),
        Style::ScreamingSnake => join(&upper, "_"),
        Style::ScreamingKebab => join(&upper, "-"),
        Style::Pascal => join(&cap, ""),
        Style::Title => join(&cap, " "),
        Style::Train => join(&cap, "-"),
        Style::Camel | Style::Mixed => {
            let mut s = String::new();
            for (i, w) in ws.iter().enumerate() {
                if i == 0 {
                    s += &lower(w);
                } else {
                    s += &cap(w);
                }
            }
            s
        }
        Style::Lower => ident.to_lowercase(),
        Style::Upper => ident.to_uppercase(),
    }
}

/// Method-name stem for EnumIs / EnumTryAs / EnumTable fields:
/// snake_case, with an underscore before each digit run that follows a non-digit.
pub fn snake_method(ident: &str) -> String {
    let s = case(ident, Some("snake_case"));
    let cs: Vec<char> = s.chars().collect();
    let mut out = String::new();
    for (i, c) in cs.iter().enumerate() {
        if c.is_ascii_digit() && i > 0 && !cs[i - 1].is_ascii_digit() {
            out.push('_');
        }
        out.push(*c);
    }
    out
}

pub fn spellings(e: &EnumSpec, v: &VariantSpec) -> Vec<String> {
    let mut out: Vec<String> = v.serialize().iter().map(|s| s.to_string()).collect();
    if let Some(t) = v.to_string_lit() {
        out.push(t.to_string());
    }
    if out.is_empty() {
        out.push(case(&v.ident, e.serialize_all()));
    }
    out
}

pub fn is_ci(e: &EnumSpec, v: &VariantSpec) -> bool {
    v.ci_flag().unwrap_or(e.ci())
}

/// ASCII-only case folding comparison, written byte-wise (not via std's eq_ignore_ascii_case).
pub fn ascii_fold_eq(a: &str, b: &str) -> bool {
    let (a, b) = (a.as_bytes(), b.as_bytes());
    if a.len() != b.len() {
        return false;
    }
    let f = |c: u8| if (b'A'..=b'Z').contains(&c) { c + 32 } else { c };
    a.iter().zip(b.iter()).all(|(x, y)| f(*x) == f(*y))
}

pub fn matches(e: &EnumSpec, v: &VariantSpec, s: &str) -> bool {
    let ci = is_ci(e, v);
    spellings(e, v).iter().any(|p| p == s || (ci && ascii_fold_eq(p, s)))
}

#[derive(Clone, Debug, PartialEq)]
pub enum Parsed {
    /// variant index, expected payload renderings
    Variant(usize, Vec<String>),
    /// default variant index, captured input
    Captured(usize),
    Err,
}

pub fn default_variant(e: &EnumSpec) -> Option<usize> {
    e.variants.iter().position(|v| !v.disabled() && v.is_default())
}

/// All enabled non-default variants matching s (the generators guarantee at most one).
pub fn matching(e: &EnumSpec, s: &str) -> Vec<usize> {
    e.variants
        .iter()
        .enumerate()
        .filter(|(_, v)| !v.disabled() && !v.is_default() && matches(e, v, s))
        .map(|(i, _)| i)
        .collect()
}

pub fn parse(e: &EnumSpec, s: &str) -> Parsed {
    let m = matching(e, s);
    if let Some(&i) = m.first() {
        return Parsed::Variant(i, expected_fields(&e.variants[i]));
    }
    match default_variant(e) {
        Some(i) => Parsed::Captured(i),
        None => Parsed::Err,
    }
}

/// Payload renderings after parsing / iterating / from_repr: Default, or the default_with value.
pub fn expected_fields(v: &VariantSpec) -> Vec<String> {
    v.fields
        .iter()
        .enumerate()
        .map(|(i, f)| {
            // a field-level attribute on a tuple field is read by no derive
            let dw = (f.default_with && v.kind == Kind::Named) || (i == 0 && v.kind == Kind::Tuple && v.default_with());
            if dw {
                f.ty.dw().expect("default_with on a type without dw value").1.to_string()
            } else {
                f.ty.default_render().to_string()
            }
        })
        .collect()
}

/// Payload renderings for EnumIter / FromRepr: always Default (default_with is an EnumString feature).
pub fn default_fields(v: &VariantSpec) -> Vec<String> {
    v.fields.iter().map(|f| f.ty.default_render().to_string()).collect()
}

/// canonical name without prefix
pub fn base_name(e: &EnumSpec, v: &VariantSpec) -> String {
    if let Some(t) = v.to_string_lit() {
        return t.to_string();
    }
    let sers = v.serialize();
    if !sers.is_empty() {
        // byte-longest; generators make it unique
        let mut best = sers[0];
        for s in &sers {
            if s.len() > best.len() {
                best = s;
            }
        }
        return best.to_string();
    }
    case(&v.ident, e.serialize_all())
}

pub fn canonical(e: &EnumSpec, v: &VariantSpec) -> String {
    format!("{}{}", e.prefix().unwrap_or(""), base_name(e, v))
}

/// true when the longest serialize literal is not unique (statement silent on ties)
pub fn longest_tie(v: &VariantSpec) -> bool {
    if v.to_string_lit().is_some() {
        return false;
    }
    let sers = v.serialize();
    let m = sers.iter().map(|s| s.len()).max().unwrap_or(0);
    sers.iter().filter(|s| s.len() == m).count() > 1
}

/// discriminants over ALL declared variants: explicit value, else previous + 1, first 0.
pub fn discs(e: &EnumSpec) -> Vec<i128> {
    let mut out = Vec::new();
    let mut prev: Option<i128> = None;
    for v in &e.variants {
        let d = match &v.disc {
            Some(d) => d.value,
            None => prev.map(|p| p + 1).unwrap_or(0),
        };
        out.push(d);
        prev = Some(d);
    }
    out
}

pub fn repr_range(repr: Option<&str>) -> (i128, i128) {
    match repr.unwrap_or("usize") {
        "u8" => (0, u8::MAX as i128),
        "i8" => (i8::MIN as i128, i8::MAX as i128),
        "u16" => (0, u16::MAX as i128),
        "i16" => (i16::MIN as i128, i16::MAX as i128),
        "u32" => (0, u32::MAX as i128),
        "i32" => (i32::MIN as i128, i32::MAX as i128),
        "u64" | "usize" => (0, u64::MAX as i128),
        "i64" | "isize" => (i64::MIN as i128, i64::MAX as i128),
        other => panic!("unknown repr {}", other),
    }
}

/// get_documentation
pub fn doc(v: &VariantSpec) -> Option<String> {
    if v.disabled() || v.docs.is_empty() {
        return None;
    }
    let lines: Vec<&str> = v
        .docs
        .iter()
        .map(|d| d.text.strip_prefix(' ').unwrap_or(d.text.as_str()))
        .collect();
    if lines.len() == 1 {
        Some(lines[0].to_string())
    } else {
        Some(lines.iter().map(|l| format!("{}\n", l)).collect())
    }
}

pub fn message(v: &VariantSpec) -> Option<String> {
    if v.disabled() {
        None
    } else {
        v.message().map(|s| s.to_string())
    }
}
pub fn detailed(v: &VariantSpec) -> Option<String> {
    if v.disabled() {
        None
    } else {
        v.detailed().or(v.message()).map(|s| s.to_string())
    }
}

pub fn prop_str(v: &VariantSpec, k: &str) -> Option<String> {
    if v.disabled() {
        return None;
    }
    v.props().iter().find_map(|(key, val)| match val {
        PropVal::Str(s) if key == k => Some(s.clone()),
        _ => None,
    })
}
pub fn prop_int(v: &VariantSpec, k: &str) -> Option<i64> {
    if v.disabled() {
        return None;
    }
    v.props().iter().find_map(|(key, val)| match val {
        PropVal::Int(s, _) if key == k => Some(*s),
        _ => None,
    })
}
pub fn prop_bool(v: &VariantSpec, k: &str) -> Option<bool> {
    if v.disabled() {
        return None;
    }
    v.props().iter().find_map(|(key, val)| match val {
        PropVal::Bool(s) if key == k => Some(*s),
        _ => None,
    })
}

/// placeholders of a format literal (after removing `{{` / `}}`): the argument names
/// every argument a literal refers to: the placeholders themselves and `name$` / `1$` width or precision arguments
pub fn placeholder_args(lit: &str) -> Vec<String> {
    let s = lit.replace("{{", "").replace("}}", "");
    let mut out = placeholders(lit);
    let mut start = None;
    for (i, c) in s.char_indices() {
        if c == '{' {
            start = Some(i);
        } else if c == '}' {
            if let Some(st) = start.take() {
                let inside = &s[st + 1..i];
                if let Some(p) = inside.find(':') {
                    let spec = &inside[p + 1..];
                    let b: Vec<char> = spec.chars().collect();
                    for (j, ch) in b.iter().enumerate() {
                        if *ch == '$' {
                            let mut k = j;
                            while k > 0 && (b[k - 1].is_alphanumeric() || b[k - 1] == '_') {
                                k -= 1;
                            }
                            let name: String = b[k..j].iter().collect();
                            if !name.is_empty() {
                                out.push(name);
                            }
                        }
                    }
                }
            }
        }
    }
    out
}

pub fn placeholders(lit: &str) -> Vec<String> {
    let s = lit.replace("{{", "").replace("}}", "");
    let mut out = Vec::new();
    let mut start = None;
    for (i, c) in s.char_indices() {
        if c == '{' {
            start = Some(i);
        } else if c == '}' {
            if let Some(st) = start.take() {
                let inside = &s[st + 1..i];
                out.push(inside.split(':').next().unwrap().trim_end().to_string());
            }
        }
    }
    out
}

#[cfg(test)]
mod tests {
    use super::*;
    #[test]
    fn calib() {
        let snake = |s: &str| case(s, Some("snake_case"));
        assert_eq!(snake("HTTPServer"), "http_server");
        assert_eq!(snake("XMLHttpRequest"), "xml_http_request");
        assert_eq!(snake("Hello2You"), "hello2_you");
        assert_eq!(snake("IPv6Addr"), "i_pv6_addr");
        assert_eq!(snake("A1Bc"), "a1_bc");
        assert_eq!(snake("AB1c"), "ab1c");
        assert_eq!(snake("X1Y2"), "x1y2");
        assert_eq!(snake("a_1b"), "a_1b");
        assert_eq!(snake("_Leading"), "leading");
        assert_eq!(snake("Double__Under"), "double_under");
        assert_eq!(snake("aB"), "a_b");
        assert_eq!(case("test_me", Some("camelCase")), "testMe");
        assert_eq!(case("test_me", Some("Train-Case")), "Test-Me");
        assert_eq!(snake_method("Hello2You"), "hello_2_you");
        assert_eq!(snake_method("Utf8Error"), "utf_8_error");
        assert_eq!(snake_method("V2"), "v_2");
    }
}
