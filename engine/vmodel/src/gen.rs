//! Generators: seed -> EnumSpec, one function per family. All randomness comes from a proptest
//! `TestRng` (ChaCha) seeded from VERIF_SEED; the exported strategies wrap these functions so that
//! every choice is made inside proptest's generation machinery.

use crate::model;
use crate::pools::*;
use crate::spec::*;
use proptest::prelude::*;
use proptest::test_runner::{RngAlgorithm, TestRng};

/// Source of choices for the generators: a proptest ChaCha RNG (property-based engines) or a byte
/// string (coverage-guided fuzzing: one or two bytes per choice, so byte mutations stay local).
pub enum Rg {
    Rng(TestRng),
    Bytes { data: Vec<u8>, pos: usize },
}

impl Rg {
    pub fn from_seed(seed: u64) -> Rg {
        let mut b = [0u8; 32];
        for i in 0..4 {
            b[i * 8..i * 8 + 8].copy_from_slice(&crate::derive_seed(seed, "gen", i as u64, 0).to_le_bytes());
        }
        Rg::Rng(TestRng::from_seed(RngAlgorithm::ChaCha, &b))
    }
    pub fn from_bytes(data: &[u8]) -> Rg {
        Rg::Bytes { data: data.to_vec(), pos: 0 }
    }
    fn byte(&mut self) -> u8 {
        match self {
            Rg::Rng(r) => r.next_u32() as u8,
            Rg::Bytes { data, pos } => {
                let b = data.get(*pos).copied().unwrap_or(0);
                *pos += 1;
                b
            }
        }
    }
    pub fn exhausted(&self) -> bool {
        match self {
            Rg::Rng(_) => false,
            Rg::Bytes { data, pos } => *pos >= data.len(),
        }
    }
    pub fn u64(&mut self) -> u64 {
        match self {
            Rg::Rng(r) => r.next_u64(),
            Rg::Bytes { .. } => {
                let mut v = 0u64;
                for _ in 0..8 {
                    v = (v << 8) | self.byte() as u64;
                }
                v
            }
        }
    }
    pub fn below(&mut self, n: usize) -> usize {
        if n == 0 {
            return 0;
        }
        match self {
            Rg::Rng(_) => (self.u64() % n as u64) as usize,
            Rg::Bytes { .. } => {
                if n <= 256 {
                    self.byte() as usize % n
                } else {
                    (((self.byte() as usize) << 8) | self.byte() as usize) % n
                }
            }
        }
    }
    pub fn range(&mut self, lo: usize, hi_incl: usize) -> usize {
        lo + self.below(hi_incl - lo + 1)
    }
    /// true with probability num/den
    pub fn chance(&mut self, num: u32, den: u32) -> bool {
        (self.below(den as usize) as u32) < num
    }
    pub fn pick<'a, T>(&mut self, v: &'a [T]) -> &'a T {
        &v[self.below(v.len())]
    }
    pub fn weighted<T: Clone>(&mut self, v: &[(u32, T)]) -> T {
        let tot: u32 = v.iter().map(|x| x.0).sum();
        let mut r = self.below(tot as usize) as u32;
        for (w, t) in v {
            if r < *w {
                return t.clone();
            }
            r -= w;
        }
        unreachable!()
    }
    pub fn shuffle<T>(&mut self, v: &mut Vec<T>) {
        for i in (1..v.len()).rev() {
            let j = self.below(i + 1);
            v.swap(i, j);
        }
    }
}

/// A strategy whose values are produced by `f(seed)`; program-level shrinking is done by
/// `reduce`, not by proptest.
pub fn spec_strategy(f: fn(&mut Rg, &GenCfg) -> EnumSpec, cfg: GenCfg) -> impl Strategy<Value = EnumSpec> {
    any::<u64>().prop_map(move |s| {
        let mut rg = Rg::from_seed(s);
        f(&mut rg, &cfg)
    })
}

#[derive(Clone, Debug, Default)]
pub struct GenCfg {
    pub property: String,
    pub max_variants: usize,
    pub derives: Vec<String>,
    pub allow_default: bool,
    pub allow_transparent: bool,
    pub allow_prefix: bool,
    pub allow_fields: bool,
    pub allow_placeholders: bool,
    pub allow_generics: bool,
    pub allow_disabled: bool,
    pub allow_ci: bool,
    pub allow_default_with: bool,
    pub parse_err: Option<bool>,
    pub force_style: Option<String>,
    pub plain_literals: bool,
    pub const_into_str: bool,
    pub min_variants: usize,
    pub phf: bool,
    /// C12 / C16: most variants carry a case-insensitivity flag
    pub ci_heavy: bool,
    /// identifiers are taken from this list first (C07)
    pub idents: Vec<String>,
    /// payload types must be Sync (values of a `static` phf map)
    pub sync_only: bool,
    /// adjacent variants may share a canonical name (only without a parser)
    pub dup_names: bool,
    /// C12: a case-sensitive / case-insensitive pair of spellings that differ only in case
    pub mixed_case_overlap: bool,
}

pub const DEFAULTABLE: &[FieldTy] = &[
    FieldTy::U8,
    FieldTy::I32,
    FieldTy::U64,
    FieldTy::Usize,
    FieldTy::Bool,
    FieldTy::Char,
    FieldTy::Str,
    FieldTy::OptU16,
    FieldTy::VecU8,
    FieldTy::Unit,
    FieldTy::Arr2,
    FieldTy::Pay,
];

fn flip_some(rg: &mut Rg, s: &str) -> String {
    let m = rg.u64();
    let mut k = 0;
    s.chars()
        .map(|c| {
            if c.is_ascii_alphabetic() {
                k += 1;
                if (m >> (k % 64)) & 1 == 1 {
                    if c.is_ascii_lowercase() {
                        return c.to_ascii_uppercase();
                    } else {
                        return c.to_ascii_lowercase();
                    }
                }
            }
            c
        })
        .collect()
}

/// random grouping of attribute items into `#[strum(..)]` groups, random order
pub fn layout<T>(rg: &mut Rg, mut items: Vec<T>, keep_order: bool) -> Vec<Vec<T>> {
    if !keep_order {
        rg.shuffle(&mut items);
    }
    let mut groups: Vec<Vec<T>> = Vec::new();
    for it in items {
        if groups.is_empty() || rg.chance(1, 2) {
            groups.push(vec![it]);
        } else {
            groups.last_mut().unwrap().push(it);
        }
    }
    groups
}

fn gen_fields(rg: &mut Rg, kind: Kind, n: usize, pool: &[FieldTy], e: &EnumSpec) -> Vec<FieldSpec> {
    let mut names: Vec<&str> = FIELD_NAMES.to_vec();
    rg.shuffle(&mut names);
    (0..n)
        .map(|i| {
            let mut ty = *rg.pick(pool);
            if e.type_param && rg.chance(1, 3) {
                ty = FieldTy::Gen;
            }
            if e.type_param2 && rg.chance(1, 4) {
                ty = FieldTy::Gen2;
            }
            if e.lifetime && rg.chance(1, 3) {
                ty = FieldTy::RefStr;
            }
            if e.const_param && rg.chance(1, 3) {
                ty = FieldTy::Phantom;
            }
            FieldSpec { name: if kind == Kind::Named { Some(names[i].to_string()) } else { None }, ty, default_with: false }
        })
        .collect()
}

/// harmless enum-level attributes at random places among derive / repr / strum attributes
pub fn add_noise(rg: &mut Rg, e: &mut EnumSpec) {
    let pool = ["/// Enum level documentation.", "#[allow(dead_code)]", "#[non_exhaustive]", "#[must_use]", "#[doc(hidden)]", "#[doc = \"attr doc\"]", "/** block doc */"];
    let n = rg.weighted(&[(3, 0usize), (3, 1), (2, 2), (1, 3)]);
    for _ in 0..n {
        let t = *rg.pick(&pool);
        if e.noise.iter().any(|(_, x)| x == t) {
            continue;
        }
        let slot = rg.below(6) as u8;
        e.noise.push((slot, t.to_string()));
    }
    // the whole item produced by a macro_rules! macro that receives the enum's NAME from its caller (tokens of the
    // name then carry the caller's hygiene context, everything else the macro's)
    if (e.macro_args.is_empty() && rg.chance(1, 8)) || (!e.macro_args.is_empty() && rg.chance(1, 3)) {
        e.macro_args.push(("n".to_string(), "ident".to_string(), String::new()));
    } else if e.macro_args.is_empty() && rg.chance(1, 8) {
        // ... or the name AND the variant list (AND the enum-level strum attributes) come from the caller, while
        // the derives sit in the macro body
        e.macro_args.push(("body".to_string(), "tt".to_string(), String::new()));
        if rg.chance(1, 2) {
            e.macro_args.push(("attrs".to_string(), "meta".to_string(), String::new()));
        }
    } else if e.macro_args.is_empty() && rg.chance(1, 8) {
        // ... or the item sits in the macro body and the caller supplies the string literals of the variant
        // attributes, or the names of the named fields: a placeholder and the field it names then differ in hygiene
        e.macro_args.push((if rg.chance(1, 2) { "lits" } else { "fids" }.to_string(), "tt".to_string(), String::new()));
    }
    // a local item shadowing a prelude name: generated code must not depend on what `Default` means here
    if rg.chance(1, 5) {
        e.decoys.push("#[allow(dead_code)] pub trait Default { fn default() -> Self; }".to_string());
    }
    // ... and the one-parameter `Result` alias found in most real modules
    if rg.chance(1, 5) {
        e.decoys.push("#[allow(dead_code)] pub type Result<T> = ::core::result::Result<T, ()>;".to_string());
    }
}

/// `macro_rules!` expression fragments usable in discriminant expressions: (argument text, value).
/// All are binary expressions of low precedence, so `$a * k` differs from the flattened token sequence.
pub const FRAGMENTS: &[(&str, i128)] = &[("1 + 2", 3), ("6 - 2", 4), ("1 | 4", 5), ("2 + 0", 2), ("9 - 3", 6)];

/// a discriminant written with the fragment `$a` (value `a`): (text, value)
pub fn fragment_disc(rg: &mut Rg, a: i128, signed: bool) -> (String, i128) {
    let k = rg.range(2, 6) as i128;
    match rg.below(if signed { 7 } else { 6 }) {
        0 => (format!("$a * {}", k), a * k),
        1 => (format!("{} * $a", k), a * k),
        2 => ("$a".to_string(), a),
        3 => (format!("{} - $a % 2", 20 + k), 20 + k - a % 2),
        // the fragment inside a visible group, next to a tighter-binding operator
        4 => (format!("($a * {}) + 1", k), a * k + 1),
        5 => (format!("({} + $a * 2) * 2", k), (k + a * 2) * 2),
        _ => ("-$a".to_string(), -a),
    }
}

/// identifiers that differ only in case / word boundaries (distinct Rust identifiers that careless
/// normalisation would merge)
pub const IDENT_PAIRS: &[(&str, &str)] = &[("Ab", "AB"), ("ABC", "AbC"), ("dark_black", "Dark_Black"), ("UserID", "UserId"), ("HTTPServer", "HttpServer"), ("IO", "Io"), ("X1Y2", "X1y2")];

/// with some probability move such a pair to the front of the identifier list (adjacent variants)
pub fn with_ident_pair<'a>(rg: &mut Rg, idents: &mut Vec<&'a str>) {
    if rg.chance(1, 6) {
        let (a, b) = *rg.pick(IDENT_PAIRS);
        idents.retain(|x| *x != a && *x != b);
        let at = rg.below(3).min(idents.len());
        idents.insert(at, b);
        idents.insert(at, a);
    }
}

/// harmless non-strum attributes in front of a variant's strum attributes
pub fn variant_noise(rg: &mut Rg, e: &mut EnumSpec, docs_ok: bool) {
    let pool: Vec<&str> = if docs_ok {
        vec!["#[allow(dead_code)]", "#[doc(hidden)]", "/// a variant doc line", "#[allow(non_camel_case_types)]", "#[doc(alias = \"an-alias-longer-than-most-names\")]", "#[deprecated]"]
    } else {
        vec!["#[allow(dead_code)]", "#[doc(hidden)]", "#[allow(non_camel_case_types)]", "#[doc(alias = \"an-alias-longer-than-most-names\")]", "#[deprecated]"]
    };
    for v in e.variants.iter_mut() {
        if rg.chance(1, 4) {
            let t = rg.pick(&pool).to_string();
            // (some attributes may appear only once on an item)
            if v.noise.contains(&t) {
                continue;
            }
            v.noise.push(t);
            // anywhere among the variant's #[strum(..)] attributes
            v.noise_at = rg.range(0, v.groups.len());
        }
    }
}

/// strum attributes that the derives of this family do not consume; they must not change anything
pub fn irrelevant_attrs(rg: &mut Rg, tag: usize) -> Vec<VAttr> {
    let mut out = Vec::new();
    if rg.chance(1, 5) {
        out.push(match rg.below(4) {
            0 => VAttr::Message(format!("irrelevant message {}", tag)),
            1 => VAttr::Detailed(format!("irrelevant detail {}", tag)),
            2 => VAttr::Props(vec![("irrelevant".to_string(), PropVal::Bool(true))]),
            _ => VAttr::Ci(None),
        });
    }
    out
}

/// enum-level strum attributes that the derives of a family do not consume (`names` = the family prints
/// or parses names, so serialize_all / prefix are relevant there and left alone), plus a visibility
pub fn irrelevant_enum_attrs(rg: &mut Rg, e: &mut EnumSpec, names: bool, vary_vis: bool) {
    let mut attrs = Vec::new();
    if !names {
        if rg.chance(1, 5) {
            attrs.push(EAttr::SerializeAll(rg.pick(&model::STYLES).to_string()));
        }
        if rg.chance(1, 6) {
            attrs.push(EAttr::Prefix("pfx_".to_string()));
        }
        if rg.chance(1, 6) {
            attrs.push(EAttr::Ci);
        }
    }
    // the default path written out explicitly must be neutral
    if rg.chance(1, 8) && e.crate_path().is_none() {
        attrs.push(EAttr::Crate("::strum".to_string()));
    }
    if !attrs.is_empty() {
        let g = layout(rg, attrs, false);
        for grp in g {
            let at = rg.range(0, e.groups.len());
            e.groups.insert(at, grp);
        }
    }
    if vary_vis {
        e.vis = rg.pick(&["pub", "pub", "pub(crate)", ""]).to_string();
    }
}

/// attributes of a disabled variant: `disabled` alone, or sharing its list / its variant with
/// harmless companions in any order
pub fn disabled_attrs(rg: &mut Rg, tag: usize) -> Vec<Vec<VAttr>> {
    let mut attrs = vec![VAttr::Disabled];
    if rg.chance(1, 2) {
        attrs.push(match rg.below(4) {
            0 => VAttr::Serialize(format!("dis-{}", tag)),
            1 => VAttr::Message(format!("disabled variant {}", tag)),
            2 => VAttr::ToString(format!("disabled-{}", tag)),
            _ => VAttr::Props(vec![("k".to_string(), PropVal::Int(tag as i64, false))]),
        });
    }
    layout(rg, attrs, false)
}

/// make sure every generic parameter is used by some field (rustc rejects unused parameters)
fn use_generics(e: &mut EnumSpec) {
    let uses = |e: &EnumSpec, t: FieldTy| e.variants.iter().any(|v| v.fields.iter().any(|f| f.ty == t));
    let mut need = vec![];
    if e.type_param && !uses(e, FieldTy::Gen) {
        need.push(FieldTy::Gen);
    }
    if e.type_param2 && !uses(e, FieldTy::Gen2) {
        need.push(FieldTy::Gen2);
    }
    if e.lifetime && !uses(e, FieldTy::RefStr) {
        need.push(FieldTy::RefStr);
    }
    // (a const parameter need not be used)
    if need.is_empty() {
        return;
    }
    // put them into a fresh tuple variant appended at a stable place
    let mut v = VariantSpec::unit("GenericsCarrier");
    v.kind = Kind::Tuple;
    v.fields = need.into_iter().map(|ty| FieldSpec { name: None, ty, default_with: false }).collect();
    e.variants.push(v);
}

pub fn spellings_overlap(e: &EnumSpec, a: &VariantSpec, b: &VariantSpec) -> bool {
    let (ca, cb) = (model::is_ci(e, a), model::is_ci(e, b));
    // C12 programs may pair a case-sensitive spelling with a case-insensitive one that differs from it only in
    // case (`"m"` exact / `"M"` folded): only the case-sensitive spelling itself is then ambiguous as an input
    // (the checker skips inputs that match two variants), every other case-flip has exactly one owner
    let mixed_ok = e.mixed_case_overlap && ca != cb;
    for p in model::spellings(e, a) {
        for q in model::spellings(e, b) {
            if p == q || ((ca || cb) && !mixed_ok && model::ascii_fold_eq(&p, &q)) {
                return true;
            }
        }
    }
    false
}

/// Deterministic repair: rename / re-spell later variants until no two variants overlap and no
/// variant repeats a spelling; make the longest serialize literal unique.
pub fn repair_spellings(e: &mut EnumSpec) {
    for i in 0..e.variants.len() {
        let mut round = 0;
        loop {
            let vi = e.variants[i].clone();
            let sp = model::spellings(e, &vi);
            let ci = model::is_ci(e, &vi);
            let mut dup_within = false;
            for a in 0..sp.len() {
                for b in (a + 1)..sp.len() {
                    if sp[a] == sp[b] || (ci && model::ascii_fold_eq(&sp[a], &sp[b])) {
                        dup_within = true;
                    }
                }
            }
            let clash = (0..i).any(|j| spellings_overlap(e, &e.variants[j], &vi));
            let tie = model::longest_tie(&vi);
            if !dup_within && !clash && !tie {
                break;
            }
            round += 1;
            assert!(round < 50, "repair does not converge");
            let v = &mut e.variants[i];
            if v.has_explicit_name() {
                // lengthen every explicit literal differently
                let mut n = 0;
                for g in v.groups.iter_mut() {
                    for a in g.iter_mut() {
                        match a {
                            VAttr::Serialize(s) | VAttr::ToString(s) => {
                                n += 1;
                                s.push_str(&format!("{}", (b'a' + ((i + round) % 26) as u8) as char).repeat(n));
                                s.push_str(&format!("{}", i));
                            }
                            _ => {}
                        }
                    }
                }
            } else {
                v.ident = format!("{}R{}", v.ident.trim_end_matches('_'), i + round);
            }
        }
    }
    // identifiers must be unique
    for i in 0..e.variants.len() {
        let mut k = 0;
        while (0..i).any(|j| e.variants[j].ident == e.variants[i].ident) {
            k += 1;
            e.variants[i].ident = format!("{}U{}", e.variants[i].ident, k);
        }
    }
}

pub fn pick_style(rg: &mut Rg) -> Option<String> {
    if rg.chance(1, 4) {
        None
    } else {
        Some(rg.pick(&model::STYLES).to_string())
    }
}

/// placeholder literal for a variant with the given fields (C17): returns the literal
fn placeholder_lit(rg: &mut Rg, kind: Kind, fields: &[FieldSpec]) -> String {
    let specs_generic = ["", ":>4", ":<6", ":^5", ":?", ":>8?"];
    let specs_num = ["", ":>4", ":<6", ":^5", ":03", ":+", ":?", ":#x", ":e", ":08", ":+05"];
    let specs_str = ["", ":>4", ":<6", ":^5", ":?", ":.2", ":*^7", ":-<3.1"];
    let texts = ["", " ", "v=", "-", ": ", "{{", "}}", "{{}}", "é", "a b"];
    let mut order: Vec<usize> = (0..fields.len()).collect();
    rg.shuffle(&mut order);
    if kind == Kind::Named {
        // any subset, any order (at least one)
        let keep = rg.range(1, order.len());
        order.truncate(keep);
        // optionally use a field twice
        if rg.chance(1, 4) {
            let x = order[0];
            order.push(x);
        }
    } else if rg.chance(1, 4) {
        let x = order[0];
        order.push(x);
    }
    // regularly the shortest literal there is: one placeholder without a spec (`{0}`, `{v}`)
    // (a tuple variant must print all of its fields: format! rejects an unused positional argument)
    if rg.chance(1, 10) && (kind == Kind::Named || fields.len() == 1) {
        let printable = |t: FieldTy| !matches!(t, FieldTy::OptU16 | FieldTy::VecU8 | FieldTy::Unit | FieldTy::Arr2 | FieldTy::Pay | FieldTy::Phantom);
        if let Some(&i) = order.iter().find(|&&i| printable(fields[i].ty)) {
            let arg = if kind == Kind::Named { fields[i].name.clone().unwrap() } else { format!("{}", i) };
            if !arg.starts_with("r#") {
                return format!("{{{}}}", arg);
            }
        }
    }
    // regularly nothing but placeholders (a literal that is exactly `{0:>6}` is a shape of its own)
    let bare = rg.chance(1, 5);
    let texts: &[&str] = if bare { &[""] } else { &texts[..] };
    let mut s = String::new();
    s.push_str(*rg.pick(&texts[..]));
    for &i in &order {
        let f = &fields[i];
        let sp = match f.ty {
            FieldTy::U8 | FieldTy::I32 | FieldTy::U64 | FieldTy::Usize => *rg.pick(&specs_num),
            FieldTy::Str | FieldTy::StaticStr => *rg.pick(&specs_str),
            FieldTy::Bool | FieldTy::Char => *rg.pick(&["", ":>4", ":<6", ":^5", ":?"]),
            _ => *rg.pick(&specs_generic),
        };
        let sp = if matches!(f.ty, FieldTy::OptU16 | FieldTy::VecU8 | FieldTy::Unit | FieldTy::Arr2 | FieldTy::Pay) {
            // Debug-only types
            if sp.ends_with('?') {
                sp.to_string()
            } else {
                format!("{}?", if sp.is_empty() { ":" } else { sp })
            }
        } else {
            sp.to_string()
        };
        let arg = if kind == Kind::Named { f.name.clone().unwrap() } else { format!("{}", i) };
        // the width taken from ANOTHER field (`{label:>width$}`, `{0:>1$}`): that field need not be printed itself
        let width_from = (0..fields.len()).find(|&w| w != i && fields[w].ty == FieldTy::Usize);
        let sp = match width_from {
            Some(w) if !sp.contains('?') && !sp.contains('#') && rg.chance(1, 2) => {
                let wn = if kind == Kind::Named { fields[w].name.clone().unwrap() } else { format!("{}", w) };
                if wn.starts_with("r#") {
                    sp
                } else {
                    format!(":>{}$", wn)
                }
            }
            _ => sp,
        };
        let trailing_ws = if rg.chance(1, 8) && sp.is_empty() { " " } else { "" };
        s.push_str(&format!("{{{}{}{}}}", arg, trailing_ws, sp));
        s.push_str(*rg.pick(&texts[..]));
    }
    s
}

/// String-family enum (C01 C02 C03 C11 C12 C16 C17 C18).
pub fn gen_string(rg: &mut Rg, cfg: &GenCfg) -> EnumSpec {
    let mut e = EnumSpec::new("En");
    e.derives = cfg.derives.clone();
    if cfg.allow_generics && cfg.allow_fields {
        e.type_param = rg.chance(1, 5);
        e.lifetime = rg.chance(1, 6);
        e.const_param = rg.chance(1, 8);
        e.type_param2 = e.type_param && rg.chance(1, 3);
        e.where_clause = e.type_param && rg.chance(1, 2);
        e.generic_defaults = (e.type_param || e.const_param) && rg.chance(1, 4);
    } else if cfg.allow_generics {
        // field-less enums can still carry an (unused) const parameter
        e.const_param = rg.chance(1, 6);
    }
    // enum-level attributes
    let mut eattrs = Vec::new();
    let style = match &cfg.force_style {
        Some(s) if s == "__none__" => None,
        Some(s) => Some(s.clone()),
        None => pick_style(rg),
    };
    if let Some(s) = &style {
        eattrs.push(EAttr::SerializeAll(s.clone()));
    }
    if cfg.allow_ci && (rg.chance(1, 3) || (cfg.ci_heavy && rg.chance(1, 3))) {
        eattrs.push(EAttr::Ci);
    }
    if cfg.allow_prefix && rg.chance(1, 2) {
        let p = if cfg.allow_placeholders || cfg.plain_literals { *rg.pick(PREFIXES_PLAIN) } else { *rg.pick(PREFIXES) };
        eattrs.push(EAttr::Prefix(p.to_string()));
    }
    if cfg.const_into_str && rg.chance(1, 2) {
        eattrs.push(EAttr::ConstIntoStr);
    }
    let pe = match cfg.parse_err {
        Some(b) => b,
        None => false,
    };
    if pe {
        eattrs.push(EAttr::ParseErr);
    }
    if cfg.phf {
        eattrs.push(EAttr::UsePhf);
    } else if cfg.property != "C16" && (e.type_param || e.lifetime || e.const_param) && e.derives("EnumString") && rg.chance(1, 6) {
        // on a generic enum `use_phf` falls back to the ordinary match (F9): a neutral attribute there
        eattrs.push(EAttr::UsePhf);
    }
    e.groups = layout(rg, eattrs, false);

    let n = if cfg.min_variants > 8 { rg.range(cfg.min_variants, cfg.max_variants) } else { rg.weighted(&[(1, 0usize), (1, 1), (3, 2), (4, 3), (4, 4), (3, 5), (2, 6), (1, 7), (1, 8)]).min(cfg.max_variants).max(cfg.min_variants) };
    let mut idents: Vec<&str> = IDENTS.to_vec();
    rg.shuffle(&mut idents);
    with_ident_pair(rg, &mut idents);
    // regularly an identifier that starts with / contains non-ASCII letters among the first variants
    if rg.chance(1, 4) {
        if let Some(p) = idents.iter().position(|s| !s.is_ascii()) {
            let x = idents.remove(p);
            let at = rg.below(3).min(idents.len());
            idents.insert(at, x);
        }
    }
    if !cfg.idents.is_empty() {
        let mut first: Vec<&str> = cfg.idents.iter().map(|s| s.as_str()).collect();
        first.extend(idents.iter().copied().filter(|i| !cfg.idents.iter().any(|c| c == i)));
        idents = first;
    }
    let mut stems: Vec<&str> = if cfg.plain_literals {
        STEMS.iter().copied().filter(|s| s.chars().all(|c| c.is_ascii_alphanumeric() || c == ' ' || c == '-' || c == '_')).collect()
    } else {
        STEMS.to_vec()
    };
    rg.shuffle(&mut stems);
    let mut stem_i = 0;
    let mut next_stem = |rg: &mut Rg| -> String {
        let s = stems[stem_i % stems.len()].to_string();
        stem_i += 1;
        if stem_i > stems.len() {
            format!("{}{}", s, stem_i)
        } else if rg.chance(1, 6) && !cfg.plain_literals {
            flip_some(rg, &s)
        } else {
            s
        }
    };
    let has_const_into = e.const_into_str();
    let mut default_used = false;
    let mut empty_used = false;
    for vi in 0..n {
        let mut v = VariantSpec::unit(idents[vi % idents.len()]);
        if vi >= idents.len() {
            v.ident = format!("{}N{}", v.ident, vi);
        }
        let kind = if cfg.allow_fields { rg.weighted(&[(5, Kind::Unit), (3, Kind::Tuple), (3, Kind::Named)]) } else { Kind::Unit };
        let mut attrs: Vec<VAttr> = Vec::new();
        let mut keep_order = false;
        let want_default = cfg.allow_default && !default_used && rg.chance(1, 5);
        let want_transparent = cfg.allow_transparent && !want_default && !has_const_into && rg.chance(1, 5);
        if want_default {
            default_used = true;
            v.kind = if rg.chance(2, 3) || !cfg.allow_fields { Kind::Tuple } else { Kind::Named };
            let mut ty = *rg.pick(&[FieldTy::Str, FieldTy::Str, FieldTy::BoxStr, FieldTy::RcStr, FieldTy::ArcStr, FieldTy::Wrap]);
            if cfg.sync_only && ty == FieldTy::RcStr {
                // the phf map is a `static`, its values must be Sync (a language rule, not strum's)
                ty = FieldTy::ArcStr;
            }
            // (a field-level default_with on the catch-all's named field is ignored: the field receives the input)
            let field_dw = v.kind == Kind::Named && cfg.allow_default_with && ty.dw().is_some() && rg.chance(1, 4);
            v.fields = vec![FieldSpec { name: if v.kind == Kind::Named { Some("inner".into()) } else { None }, ty, default_with: field_dw }];
            attrs.push(VAttr::Default);
            // both markers on one variant say the same thing twice for Display; the parser keeps its catch-all
            if cfg.allow_transparent && !has_const_into && rg.chance(1, 5) && e.derives("Display") && !e.derives("IntoStaticStr") && (!e.derives("AsRefStr") || matches!(ty, FieldTy::Str | FieldTy::BoxStr)) {
                attrs.push(VAttr::Transparent);
            }
        } else if want_transparent {
            v.kind = if rg.chance(2, 3) { Kind::Tuple } else { Kind::Named };
            let mut pool: Vec<FieldTy> = vec![FieldTy::StaticStr, FieldTy::Inner];
            let only_disp = !e.derives("AsRefStr") && !e.derives("IntoStaticStr");
            if only_disp {
                pool.extend([FieldTy::U8, FieldTy::I32, FieldTy::Str, FieldTy::Spy, FieldTy::Wrap, FieldTy::Spy]);
            } else if !e.derives("IntoStaticStr") {
                pool.extend([FieldTy::Str, FieldTy::Wrap]);
            }
            let ty = *rg.pick(&pool);
            v.fields = vec![FieldSpec { name: if v.kind == Kind::Named { Some("inner".into()) } else { None }, ty, default_with: false }];
            attrs.push(VAttr::Transparent);
        } else {
            v.kind = kind;
            let nf = match kind {
                Kind::Unit => 0,
                Kind::Tuple => rg.weighted(&[(1, 0usize), (4, 1), (3, 2), (2, 3)]),
                Kind::Named => rg.weighted(&[(1, 0usize), (4, 1), (3, 2), (2, 3)]),
            };
            v.fields = gen_fields(rg, kind, nf, DEFAULTABLE, &e);
            if cfg.allow_default_with {
                if kind == Kind::Tuple && nf == 1 && v.fields[0].ty.dw().is_some() && rg.chance(1, 3) {
                    attrs.push(VAttr::DefaultWith);
                }
                inert_tuple_field_attrs(&mut v, kind);
                if kind == Kind::Named {
                    for f in v.fields.iter_mut() {
                        if f.ty.dw().is_some() && rg.chance(1, 3) {
                            f.default_with = true;
                        }
                    }
                }
            }
        }
        // naming attributes
        // (a default variant WITH a to_string is an ordinary named variant for Display, placeholders included)
        let placeholders = cfg.allow_placeholders
            && !want_transparent
            && !v.fields.is_empty()
            && v.fields.iter().all(|f| !matches!(f.ty, FieldTy::Gen | FieldTy::Gen2 | FieldTy::Phantom | FieldTy::RefStr))
            // format! itself rejects raw identifiers inside placeholders
            && v.fields.iter().all(|f| !f.name.as_deref().unwrap_or("").starts_with("r#"))
            && rg.chance(1, 2);
        if placeholders {
            let l = placeholder_lit(rg, v.kind, &v.fields);
            attrs.push(VAttr::ToString(l));
            if rg.chance(1, 4) {
                attrs.push(VAttr::Serialize(next_stem(rg)));
            }
        } else {
            let mode = rg.weighted(&[(4, 0u8), (2, 1), (3, 2), (2, 3)]);
            // 0: none, 1: to_string, 2: serialize x1..3, 3: both
            if mode == 2 || mode == 3 {
                let k = rg.range(1, 3);
                let mut lits: Vec<String> = (0..k).map(|_| next_stem(rg)).collect();
                // distinct lengths in a random order
                lits.sort_by_key(|s| s.len());
                // pad so that byte lengths strictly increase
                for i in 1..lits.len() {
                    while lits[i].len() <= lits[i - 1].len() {
                        let c = lits[i].chars().last().unwrap_or('x');
                        let c = if c.is_alphanumeric() { c } else { 'x' };
                        lits[i].push(c);
                    }
                }
                // the longest literal in bytes is not the longest in characters
                if lits.len() >= 2 && !cfg.plain_literals && rg.chance(1, 6) {
                    const CJK: [char; 8] = ['日', '本', '語', '漢', '字', '東', '京', '中'];
                    let prev_len = lits[lits.len() - 2].len();
                    let m = prev_len / 3 + 1;
                    let l: String = (0..m).map(|j| CJK[(vi + j) % CJK.len()]).collect();
                    let last = lits.len() - 1;
                    lits[last] = l;
                }
                // a case-variant sibling of the variant's own spelling (legal while the variant is case-sensitive;
                // the repair step re-spells it otherwise)
                if rg.chance(1, 6) && !cfg.plain_literals {
                    let sib = flip_some(rg, &lits[0]);
                    if sib != lits[0] && !lits.contains(&sib) {
                        lits.push(sib);
                    }
                }
                // ... or a sibling that differs only in the case of a NON-ASCII letter: two distinct spellings
                // even for a case-insensitive variant (ASCII folding does not touch them)
                if rg.chance(1, 8) && !cfg.plain_literals {
                    let base = lits[0].clone();
                    let sib: String = base.chars().map(|c| if c.is_ascii() { c.to_string() } else if c.is_lowercase() { c.to_uppercase().collect() } else { c.to_lowercase().collect() }).collect();
                    if sib != base && sib.chars().count() == base.chars().count() && !lits.contains(&sib) {
                        lits.push(sib);
                    }
                }
                // a parser-only enum may spell a variant with braces (tokens like `{` or `${`): they are no placeholders there
                if e.derives.iter().all(|d| d == "EnumString") && !cfg.plain_literals && rg.chance(1, 8) {
                    let last = lits.len() - 1;
                    lits[last] = format!("{}{}", rg.pick(&["{", "${", "a{b}", "}{", "{0}"]), "x".repeat(lits[last].len()));
                }
                // an explicit name that happens to be the identifier itself is still explicit: never re-cased
                if lits.len() == 1 && !cfg.plain_literals && rg.chance(1, 10) {
                    lits[0] = v.ident.trim_start_matches("r#").to_string();
                }
                rg.shuffle(&mut lits);
                for l in lits {
                    attrs.push(VAttr::Serialize(l));
                }
            }
            if mode == 1 || mode == 3 {
                // the empty literal is a legal (and boundary) name
                if !empty_used && !cfg.plain_literals && rg.chance(1, 10) {
                    empty_used = true;
                    attrs.push(VAttr::ToString(String::new()));
                } else {
                    attrs.push(VAttr::ToString(next_stem(rg)));
                }
            }
        }
        // a disabled default variant is legal: it must neither be produced nor act as the catch-all
        if cfg.allow_disabled && ((!want_default && rg.chance(1, 6)) || (want_default && rg.chance(1, 4))) {
            attrs.push(VAttr::Disabled);
        }
        if cfg.allow_ci && (rg.chance(1, 3) || (cfg.ci_heavy && rg.chance(1, 2))) {
            attrs.push(VAttr::Ci(*rg.pick(&[None, None, Some(true), Some(false), Some(false)])));
        }
        let _ = &mut keep_order;
        v.groups = layout(rg, attrs, keep_order);
        e.variants.push(v);
    }
    // a wide tuple variant: positional placeholders with two-digit indices
    if cfg.allow_placeholders && rg.chance(1, 4) {
        let nf = rg.range(10, 13);
        let mut v = VariantSpec::unit(&format!("Wide{}", nf));
        v.kind = Kind::Tuple;
        v.fields = (0..nf).map(|_| FieldSpec { name: None, ty: FieldTy::U8, default_with: false }).collect();
        let mut order: Vec<usize> = (0..nf).collect();
        if rg.chance(1, 2) {
            rg.shuffle(&mut order);
        }
        let lit: Vec<String> = order.iter().map(|i| format!("{{{}}}", i)).collect();
        v.groups = vec![vec![VAttr::ToString(lit.join(*rg.pick(&[" ", ",", "-", ""])))]];
        let at = rg.range(0, e.variants.len());
        e.variants.insert(at, v);
    }
    // two CASE-SENSITIVE variants spelled alike up to case (`mb` / `MB`), declared after a case-insensitive one:
    // each must keep parsing to itself (a flag that leaks from one variant to the following ones merges them)
    if e.derives("EnumString") && cfg.allow_ci && !cfg.plain_literals && rg.chance(1, 6) {
        let cand: Vec<usize> = (1..e.variants.len()).filter(|&i| !e.variants[i].is_default() && !e.variants[i].transparent()).collect();
        if cand.len() >= 2 && !e.variants[0].is_default() {
            let i = cand[rg.below(cand.len() - 1)];
            let j = *cand.iter().find(|&&x| x > i).unwrap();
            let base = format!("{}{}", rg.pick(&["mb", "kib", "rgb", "id"]), i);
            let enum_ci = e.eattrs().any(|a| matches!(a, EAttr::Ci));
            for (at, name) in [(i, base.clone()), (j, base.to_ascii_uppercase())] {
                let v = &mut e.variants[at];
                for g in v.groups.iter_mut() {
                    g.retain(|a| !matches!(a, VAttr::Serialize(_) | VAttr::ToString(_) | VAttr::Ci(_)));
                }
                v.groups.retain(|g| !g.is_empty());
                // (no flag of their own unless the enum-level one has to be switched off)
                if enum_ci {
                    v.groups.push(vec![VAttr::Serialize(name), VAttr::Ci(Some(false))]);
                } else {
                    v.groups.push(vec![VAttr::Serialize(name)]);
                }
            }
            // some earlier variant carries the flag
            let k = rg.below(i);
            if !e.variants[k].is_default() && !e.variants[k].attrs().any(|a| matches!(a, VAttr::Ci(_))) {
                e.variants[k].groups.push(vec![VAttr::Ci(*rg.pick(&[None, Some(true)]))]);
            }
        }
    }
    // a case-sensitive and a case-insensitive variant whose spellings differ only in case, in either order
    if cfg.mixed_case_overlap && rg.chance(1, 3) {
        let cand: Vec<usize> = (0..e.variants.len()).filter(|&i| !e.variants[i].is_default() && !e.variants[i].transparent()).collect();
        if cand.len() >= 2 {
            e.mixed_case_overlap = true;
            let i = cand[rg.below(cand.len() - 1)];
            let j = *cand.iter().find(|&&x| x > i).unwrap();
            let base = format!("{}{}", rg.pick(&["kb", "m", "ok", "sha", "io"]), i);
            let up: String = {
                let mut c = base.chars();
                let f = c.next().unwrap().to_ascii_uppercase();
                std::iter::once(f).chain(c).collect()
            };
            let (cs_at, ci_at) = if rg.chance(1, 2) { (i, j) } else { (j, i) };
            for (at, name, flag) in [(cs_at, base, false), (ci_at, up, true)] {
                let v = &mut e.variants[at];
                for g in v.groups.iter_mut() {
                    g.retain(|a| !matches!(a, VAttr::Serialize(_) | VAttr::ToString(_) | VAttr::Ci(_)));
                }
                v.groups.retain(|g| !g.is_empty());
                v.groups.push(vec![VAttr::Serialize(name), VAttr::Ci(Some(flag))]);
            }
        }
    }
    // braces in non-placeholder literals confuse Display's placeholder scanner: only C17 plays with them
    use_generics(&mut e);
    repair_spellings(&mut e);
    // harmless non-strum attributes on variants (`#[doc(hidden)]` is a doc attribute without text)
    variant_noise(rg, &mut e, false);
    if cfg.dup_names && !e.derives("EnumString") {
        for vi in 1..e.variants.len() {
            let (a, b) = (&e.variants[vi - 1], &e.variants[vi]);
            let plain = |v: &VariantSpec| !v.is_default() && !v.transparent() && v.to_string_lit().map(|l| !l.contains('{')).unwrap_or(true);
            if rg.chance(1, 8) && plain(a) && plain(b) && !model::base_name(&e, a).contains('{') {
                let name = model::base_name(&e, a);
                let v = &mut e.variants[vi];
                for g in v.groups.iter_mut() {
                    g.retain(|x| !matches!(x, VAttr::Serialize(_) | VAttr::ToString(_)));
                }
                v.groups.retain(|g| !g.is_empty());
                v.groups.push(vec![VAttr::ToString(name)]);
            }
        }
    }
    // explicit discriminants in no particular order: names, tables and parsers follow the declaration order, never
    // the numeric one (field-less enums only: with payloads rustc wants a #[repr] for them)
    if !e.variants.is_empty() && e.variants.iter().all(|v| v.kind == Kind::Unit) && rg.chance(1, 3) {
        let mut vals: Vec<i128> = (0..e.variants.len() as i128).map(|i| i * 7 + 3).collect();
        rg.shuffle(&mut vals);
        let some = rg.chance(1, 3);
        for (i, (v, x)) in e.variants.iter_mut().zip(vals).enumerate() {
            // (`some`: only a few variants explicit, the others continue from their predecessor; an implicit one must
            // not land on a value used elsewhere, so explicit values only ever decrease there after the first)
            if some && i % 3 != 0 {
                continue;
            }
            let x = if some { 1000 - 50 * i as i128 } else { x };
            v.disc = Some(Disc { text: format!("{}", x), value: x });
        }
    }
    add_noise(rg, &mut e);
    irrelevant_enum_attrs(rg, &mut e, true, false);
    let docs_ok = !e.derives("EnumMessage");
    variant_noise(rg, &mut e, docs_ok);
    e
}

pub fn strip_braces(e: &mut EnumSpec) {
    for v in e.variants.iter_mut() {
        for g in v.groups.iter_mut() {
            for a in g.iter_mut() {
                if let VAttr::Serialize(s) | VAttr::ToString(s) = a {
                    *s = s.replace('{', "(").replace('}', ")");
                }
            }
        }
    }
}

#[derive(Clone, Debug, Default)]
pub struct IterCfg {
    pub derives: Vec<String>,
    pub max_variants: usize,
    /// force exactly this disabled mask (bit i = variant i disabled) over n variants
    pub mask: Option<(usize, u32)>,
    /// exactly this many enabled variants (C05)
    pub n_enabled: Option<usize>,
    pub fieldless: bool,
    pub naming: bool,
    pub discriminants: bool,
    /// allow adjacent variants with identical canonical names (no parser derived)
    pub dup_names: bool,
}

/// Iter-family enum (C04 C05 C08)
pub fn gen_iter(rg: &mut Rg, cfg: &IterCfg) -> EnumSpec {
    let mut e = EnumSpec::new("En");
    e.derives = cfg.derives.clone();
    if !cfg.fieldless {
        e.type_param = rg.chance(1, 4);
        e.type_param2 = e.type_param && rg.chance(1, 2);
        e.const_param = rg.chance(1, 6);
        e.where_clause = e.type_param && rg.chance(1, 2);
    }
    let mut eattrs = Vec::new();
    if cfg.naming {
        if let Some(s) = pick_style(rg) {
            eattrs.push(EAttr::SerializeAll(s));
        }
        if rg.chance(1, 3) {
            eattrs.push(EAttr::Prefix(rg.pick(PREFIXES).to_string()));
        }
    }
    e.groups = layout(rg, eattrs, false);
    let (n, mask) = match (cfg.mask, cfg.n_enabled) {
        (Some((n, m)), _) => (n, m),
        (None, Some(k)) => {
            // k enabled variants with 0..3 disabled ones interleaved
            let extra = rg.weighted(&[(2, 0usize), (2, 1), (1, 2), (1, 3)]);
            let n = k + extra;
            let mut pos: Vec<usize> = (0..n).collect();
            rg.shuffle(&mut pos);
            let mut m = 0u32;
            for p in pos.iter().take(extra) {
                m |= 1 << p;
            }
            (n, m)
        }
        (None, None) => {
            let n = rg.range(0, cfg.max_variants);
            let mut m = 0u32;
            for i in 0..n {
                if rg.chance(1, 4) {
                    m |= 1 << i;
                }
            }
            (n, m)
        }
    };
    let mut idents: Vec<&str> = IDENTS.to_vec();
    rg.shuffle(&mut idents);
    with_ident_pair(rg, &mut idents);
    // a raw-identifier variant now and then (its name is `r#type` for every derive that prints names)
    if rg.chance(1, 10) {
        let at = rg.below(3).min(idents.len());
        idents.insert(at, *rg.pick(&["r#type", "r#match", "r#ref"]));
    }
    let mut stems: Vec<&str> = STEMS.to_vec();
    rg.shuffle(&mut stems);
    let mut si = 0;
    let mut next_disc: i128 = 0;
    let all_explicit = cfg.discriminants && cfg.fieldless && rg.chance(1, 4);
    let mut explicit_vals: Vec<i128> = (0..n as i128).map(|i| i * 3 + 1).collect();
    rg.shuffle(&mut explicit_vals);
    for vi in 0..n {
        let mut v = VariantSpec::unit(idents[vi % idents.len()]);
        if vi >= idents.len() {
            v.ident = format!("{}N{}", v.ident, vi);
        }
        let kind = if cfg.fieldless { Kind::Unit } else { rg.weighted(&[(4, Kind::Unit), (3, Kind::Tuple), (3, Kind::Named)]) };
        v.kind = kind;
        let nf = if kind == Kind::Unit { 0 } else { rg.weighted(&[(1, 0usize), (4, 1), (3, 2), (2, 3)]) };
        v.fields = gen_fields(rg, kind, nf, DEFAULTABLE, &e);
        let mut attrs = Vec::new();
        if (mask >> vi) & 1 == 1 {
            attrs.push(VAttr::Disabled);
            if kind != Kind::Unit && nf == 1 && rg.chance(1, 4) {
                attrs.push(VAttr::Transparent);
            }
            if !cfg.naming && rg.chance(1, 2) {
                attrs.push(match rg.below(2) {
                    0 => VAttr::Serialize(format!("dis-{}", vi)),
                    _ => VAttr::Message(format!("disabled {}", vi)),
                });
            }
        }
        if (mask >> vi) & 1 == 0 {
            attrs.extend(irrelevant_attrs(rg, vi));
            // `transparent` is a print-side attribute
            if kind != Kind::Unit && nf == 1 && rg.chance(1, 8) {
                attrs.push(VAttr::Transparent);
            }
            // default_with belongs to EnumString: the iterator builds payloads with Default all the same
            if kind == Kind::Tuple && nf == 1 && v.fields[0].ty.dw().is_some() && rg.chance(1, 5) {
                attrs.push(VAttr::DefaultWith);
            }
        }
        // on disabled variants too (seeded change C04-28 reads the field's attributes instead of the variant's)
        inert_tuple_field_attrs(&mut v, kind);
        if (mask >> vi) & 1 == 0 {
            if kind == Kind::Named {
                for f in v.fields.iter_mut() {
                    if f.ty.dw().is_some() && rg.chance(1, 6) {
                        f.default_with = true;
                    }
                }
            }
        }
        if cfg.naming {
            match rg.weighted(&[(4, 0u8), (2, 1), (2, 2)]) {
                1 => {
                    attrs.push(VAttr::ToString(stems[si % stems.len()].to_string()));
                    si += 1;
                }
                2 => {
                    let a = stems[si % stems.len()].to_string();
                    let b = format!("{}{}", stems[(si + 1) % stems.len()], "_longer_suffix_x");
                    si += 2;
                    let mut l = vec![a, b];
                    rg.shuffle(&mut l);
                    for x in l {
                        attrs.push(VAttr::Serialize(x));
                    }
                }
                _ => {}
            }
        }
        if cfg.discriminants && !all_explicit && rg.chance(1, 3) {
            next_disc += rg.range(0, 5) as i128;
            v.disc = Some(Disc { text: format!("{}", next_disc), value: next_disc });
        }
        if all_explicit {
            // every variant explicit, in no particular order
            let val = explicit_vals[vi];
            v.disc = Some(Disc { text: format!("{}", val), value: val });
        }
        next_disc += 1;
        v.groups = layout(rg, attrs, false);
        e.variants.push(v);
    }
    use_generics_disabled(&mut e);
    repair_spellings(&mut e);
    if cfg.dup_names && !e.derives("EnumString") {
        // without a parser nothing forbids two variants with the same name: adjacent duplicates
        for vi in 1..e.variants.len() {
            if rg.chance(1, 6) && e.variants[vi].kind == e.variants[vi - 1].kind {
                let name = model::base_name(&e, &e.variants[vi - 1]);
                let dis = e.variants[vi].disabled();
                let mut a = vec![VAttr::ToString(name)];
                if dis {
                    a.push(VAttr::Disabled);
                }
                e.variants[vi].groups = layout(rg, a, false);
            }
        }
    }
    // `default` is an EnumString notion: a catch-all variant is an ordinary variant for every other derive
    if !cfg.fieldless && rg.chance(1, 5) {
        // (on a disabled variant too: `disabled` keeps it out of the iterator whatever else it carries)
        let may_be_disabled = rg.chance(1, 2);
        if let Some(v) = e.variants.iter_mut().find(|v| v.kind == Kind::Tuple && v.fields.len() == 1 && (may_be_disabled || !v.disabled()) && !v.is_default() && !matches!(v.fields[0].ty, FieldTy::Gen | FieldTy::Gen2 | FieldTy::Phantom | FieldTy::RefStr)) {
            v.fields[0].ty = FieldTy::Str;
            if v.disabled() && may_be_disabled {
                // same attribute list as `disabled`, in front of it or behind it
                let at = v.groups.iter().position(|g| g.iter().any(|a| matches!(a, VAttr::Disabled))).unwrap();
                if v.fields.len() % 2 == 1 && v.ident.len() % 2 == 0 {
                    v.groups[at].insert(0, VAttr::Default);
                } else {
                    v.groups[at].push(VAttr::Default);
                }
            } else {
                v.groups.push(vec![VAttr::Default]);
            }
        }
    }
    add_noise(rg, &mut e);
    let names = cfg.naming;
    irrelevant_enum_attrs(rg, &mut e, names, true);
    variant_noise(rg, &mut e, true);
    e
}

/// like use_generics, but the carrier variant is disabled-neutral: appended enabled variant
fn use_generics_disabled(e: &mut EnumSpec) {
    use_generics(e);
}

pub const REPRS: [Option<&str>; 11] =
    [None, Some("u8"), Some("i8"), Some("u16"), Some("i16"), Some("u32"), Some("i32"), Some("u64"), Some("i64"), Some("usize"), Some("isize")];

/// Repr-family enum (C06): `repr` fixed by the caller.
pub fn gen_repr(rg: &mut Rg, repr: Option<&str>, derives: &[String]) -> EnumSpec {
    let (lo, mut hi) = model::repr_range(repr);
    if repr.is_none() {
        // rustc types the discriminants of a repr-less enum as isize; from_repr takes usize
        hi = i64::MAX as i128;
    }
    let signed = lo < 0;
    for _attempt in 0..40 {
        let mut e = EnumSpec::new("En");
        e.derives = derives.to_vec();
        e.repr = repr.map(|s| s.to_string());
        e.repr_int = repr.map(|s| s.to_string());
        let mut n = rg.weighted(&[(1, 0usize), (2, 1), (3, 2), (4, 3), (4, 4), (3, 5), (2, 6), (2, 8), (1, 11)]);
        if repr.is_some() && n == 0 {
            n = 1; // rustc: "unsupported representation for zero-variant enum"
        }
        // data variants: with a primitive repr always possible; without repr only if no explicit discriminant
        let data = rg.chance(1, 3);
        let explicit_ok = !(data && repr.is_none());
        if data {
            e.type_param = rg.chance(1, 4);
            e.where_clause = e.type_param && rg.chance(1, 2);
        } else {
            // an unused const parameter is legal on a field-less enum
            e.const_param = rg.chance(1, 6);
        }
        // a typed constant can only be used with an explicit integer repr: in a repr-less enum rustc types the
        // discriminants isize while from_repr works in usize (DESIGN O11)
        let use_base = explicit_ok && repr.is_some() && rg.chance(1, 5);
        if use_base {
            let b = if signed { rg.range(0, 40) as i128 - 20 } else { rg.range(0, 40) as i128 };
            e.base_const = Some(b);
        }
        // the integer type may sit in a second #[repr] attribute, after an alignment (or, with fields, `C`) hint
        if let Some(r) = repr {
            if rg.chance(1, 8) {
                let first = if data && rg.chance(1, 2) { "C" } else { *rg.pick(&["align(8)", "align(2)"]) };
                e.repr = Some(format!("{}; {}", first, r));
            }
        }
        // the whole item comes out of a macro_rules! macro and discriminants mention its expression fragment
        let frag = if explicit_ok && rg.chance(1, 5) { Some(*rg.pick(FRAGMENTS)) } else { None };
        if let Some((text, _)) = frag {
            e.macro_args.push(("a".to_string(), "expr".to_string(), text.to_string()));
        }
        let mut idents: Vec<&str> = IDENTS.to_vec();
        rg.shuffle(&mut idents);
        with_ident_pair(rg, &mut idents);
        // the user's constant may carry a name the derive would pick for one of its own helper items
        if use_base && rg.chance(1, 3) && idents[0].is_ascii() {
            e.base_const_name = Some(format!("{}_DISCRIMINANT", idents[0]));
        }
        let mut prev: Option<i128> = None;
        for vi in 0..n {
            let mut v = VariantSpec::unit(idents[vi]);
            if data {
                let kind = rg.weighted(&[(3, Kind::Unit), (3, Kind::Tuple), (3, Kind::Named)]);
                v.kind = kind;
                let nf = if kind == Kind::Unit { 0 } else { rg.range(0, 3) };
                v.fields = gen_fields(rg, kind, nf, DEFAULTABLE, &e);
            }
            let implicit = prev.map(|p| p + 1).unwrap_or(0);
            let mut val = implicit;
            if explicit_ok && rg.chance(2, 5) {
                let cand: i128 = match rg.below(8) {
                    0 => implicit + rg.range(1, 9) as i128,                   // gap
                    1 => implicit - rg.range(2, 30) as i128,                  // descending
                    2 => rg.range(0, 20) as i128,                             // small literal
                    3 => hi - rg.range(0, 12) as i128,                        // near MAX
                    4 => lo + rg.range(0, 12) as i128,                        // near MIN
                    5 => 1i128 << rg.range(0, 6),                             // shift expression
                    6 => -(rg.range(1, 100) as i128),                         // negative
                    _ => implicit,                                            // explicit but equal to the implicit value
                };
                val = cand;
                let text = match rg.below(6) {
                    0 if val >= 0 => format!("{:#x}", val),
                    1 if val >= 0 && val.count_ones() == 1 => format!("1 << {}", val.trailing_zeros()),
                    2 if val >= 3 && val - 3 <= hi => format!("{} + 3", val - 3),
                    // an expression that STARTS with a parenthesised part and goes on after it
                    5 if val & 16 != 0 && val >= 16 && val < 4096 => format!("(1 << 4) | {}", val & !16),
                    5 if val >= 2 && val % 2 == 0 && val <= 2000 => format!("({} + 1) * 2", val / 2 - 1),
                    3 if use_base && val - e.base_const.unwrap() >= 0 && val - e.base_const.unwrap() <= hi.min(1000) => format!("{} + {}", e.base_const_name.as_deref().unwrap_or("BASE"), val - e.base_const.unwrap()),
                    _ => format!("{}", val),
                };
                v.disc = Some(Disc { text, value: val });
            }
            if let Some((_, a)) = frag {
                if rg.chance(1, 2) {
                    let (text, value) = fragment_disc(rg, a, signed);
                    val = value;
                    v.disc = Some(Disc { text, value });
                }
            }
            prev = Some(val);
            if rg.chance(1, 4) {
                v.groups = disabled_attrs(rg, vi);
            } else {
                let ir = irrelevant_attrs(rg, vi);
                if !ir.is_empty() {
                    v.groups = layout(rg, ir, false);
                }
            }
            e.variants.push(v);
        }
        if data {
            use_generics(&mut e);
        }
        add_noise(rg, &mut e);
        irrelevant_enum_attrs(rg, &mut e, false, true);
        variant_noise(rg, &mut e, true);
        // validity: unique, in range (rustc rejects duplicates / overflow)
        let ds = model::discs(&e);
        let mut s = ds.clone();
        s.sort();
        s.dedup();
        if s.len() != ds.len() || ds.iter().any(|d| *d < lo || *d > hi) {
            continue;
        }
        // `C` next to an integer type is only legal on an enum with fields
        if e.repr.as_deref().map_or(false, |r| r.starts_with("C;")) && e.variants.iter().all(|v| v.fields.is_empty()) {
            continue;
        }
        // the same enum may derive EnumDiscriminants as well, and give the discriminant enum a repr of its own
        // through a pass-through attribute: none of FromRepr's business (from_repr keeps taking usize)
        if repr.is_none() && !e.variants.is_empty() && rg.chance(1, 8) {
            e.derives.push("EnumDiscriminants".to_string());
            e.noise.push((3, "#[strum_discriminants(repr(i64))]".to_string()));
        }
        // BASE must be used if declared (otherwise harmless); fine either way
        return e;
    }
    // fallback: plain implicit enum
    let mut e = EnumSpec::new("En");
    e.derives = derives.to_vec();
    e.repr = repr.map(|s| s.to_string());
    e.repr_int = repr.map(|s| s.to_string());
    for i in 0..3 {
        e.variants.push(VariantSpec::unit(IDENTS[i]));
    }
    e
}

/// Shape-family enum (C13): EnumIs + EnumTryAs
pub fn gen_shape(rg: &mut Rg) -> EnumSpec {
    let mut e = EnumSpec::new("En");
    e.derives = vec!["EnumIs".into(), "EnumTryAs".into()];
    e.type_param = rg.chance(1, 4);
    e.lifetime = rg.chance(1, 5);
    // bounds stated in a where clause (the emitter gives shape enums the bound `Clone` then)
    e.where_clause = e.type_param && rg.chance(1, 2);
    e.type_param2 = e.type_param && rg.chance(1, 3);
    e.generic_defaults = e.type_param && rg.chance(1, 3);
    let n = rg.range(1, 8);
    let mut idents: Vec<&str> = IDENTS.iter().copied().filter(|i| method_safe(i)).collect();
    rg.shuffle(&mut idents);
    // payload pool: deliberately small so that equal types and equal signatures are frequent
    let pool_a = [FieldTy::U8, FieldTy::U8, FieldTy::Str, FieldTy::I32, FieldTy::NoDef, FieldTy::Bool];
    let mut used_methods: Vec<String> = Vec::new();
    let mut last_sig: Option<Vec<FieldTy>> = None;
    let mut ii = 0;
    while e.variants.len() < n && ii < idents.len() {
        let id = idents[ii];
        ii += 1;
        let m = model::snake_method(id);
        // two variants must not map to the same method name, and the name must be an identifier
        if used_methods.contains(&m) || m.is_empty() || m.starts_with(|c: char| c.is_ascii_digit()) {
            continue;
        }
        used_methods.push(m);
        let mut v = VariantSpec::unit(id);
        v.kind = rg.weighted(&[(2, Kind::Unit), (6, Kind::Tuple), (2, Kind::Named)]);
        match v.kind {
            Kind::Unit => {}
            Kind::Tuple => {
                if let (Some(sig), true) = (&last_sig, rg.chance(1, 3)) {
                    v.fields = sig.iter().map(|t| FieldSpec { name: None, ty: *t, default_with: false }).collect();
                } else {
                    let nf = rg.weighted(&[(1, 0usize), (3, 1), (4, 2), (3, 3)]);
                    v.fields = gen_fields(rg, Kind::Tuple, nf, &pool_a, &e);
                    if nf >= 2 && rg.chance(1, 2) {
                        let t = v.fields[0].ty;
                        v.fields[1].ty = t;
                    }
                }
                last_sig = Some(v.fields.iter().map(|f| f.ty).collect());
            }
            Kind::Named => {
                let nf = rg.range(0, 2);
                v.fields = gen_fields(rg, Kind::Named, nf, &pool_a, &e);
            }
        }
        if rg.chance(1, 6) {
            let tag = e.variants.len();
            v.groups = disabled_attrs(rg, tag);
        }
        e.variants.push(v);
    }
    // a DISABLED variant may share its method name with an enabled one (it gets no methods)
    if rg.chance(1, 5) {
        let pairs: Vec<(&str, &str)> = IDENT_PAIRS
            .iter()
            .copied()
            .filter(|(a, b)| method_safe(a) && method_safe(b) && model::snake_method(a) == model::snake_method(b) && !used_methods.contains(&model::snake_method(a)))
            .filter(|(a, b)| !e.variants.iter().any(|v| v.ident == *a || v.ident == *b))
            .collect();
        if !pairs.is_empty() {
            let (a, b) = *rg.pick(&pairs);
            let (dis_id, en_id) = if rg.chance(1, 2) { (a, b) } else { (b, a) };
            let mut d = VariantSpec::unit(dis_id);
            d.groups = disabled_attrs(rg, 90);
            let mut en = VariantSpec::unit(en_id);
            if rg.chance(2, 3) {
                en.kind = Kind::Tuple;
                let nf = rg.range(1, 2);
                en.fields = gen_fields(rg, Kind::Tuple, nf, &pool_a, &e);
            }
            used_methods.push(model::snake_method(a));
            let at = rg.range(0, e.variants.len());
            if rg.chance(1, 2) {
                e.variants.insert(at, en);
                e.variants.insert(at, d);
            } else {
                e.variants.insert(at, d);
                e.variants.insert(at, en);
            }
        }
    }
    // a tuple variant wider than the alphabet
    if rg.chance(1, 8) {
        let nf = rg.range(27, 30);
        let mut v = VariantSpec::unit("WideTuple");
        v.kind = Kind::Tuple;
        v.fields = (0..nf).map(|i| FieldSpec { name: None, ty: if i % 7 == 3 { FieldTy::Str } else { FieldTy::U8 }, default_with: false }).collect();
        let at = rg.range(0, e.variants.len());
        e.variants.insert(at, v);
    }
    add_noise(rg, &mut e);
    irrelevant_enum_attrs(rg, &mut e, false, true);
    variant_noise(rg, &mut e, true);
    // generic carriers (not disabled)
    let uses = |e: &EnumSpec, t: FieldTy| e.variants.iter().any(|v| v.fields.iter().any(|f| f.ty == t));
    let mut need = vec![];
    if e.type_param && !uses(&e, FieldTy::Gen) {
        need.push(FieldTy::Gen);
    }
    if e.type_param2 && !uses(&e, FieldTy::Gen2) {
        need.push(FieldTy::Gen2);
    }
    if e.lifetime && !uses(&e, FieldTy::RefStr) {
        need.push(FieldTy::RefStr);
    }
    if !need.is_empty() {
        let mut v = VariantSpec::unit("GenericsCarrier");
        v.kind = Kind::Tuple;
        v.fields = need.into_iter().map(|ty| FieldSpec { name: None, ty, default_with: false }).collect();
        e.variants.push(v);
    }
    e
}

/// insert extra attribute items into random existing / new groups of a variant
fn scatter(rg: &mut Rg, v: &mut VariantSpec, items: Vec<VAttr>) {
    for it in items {
        if v.groups.is_empty() || rg.chance(1, 2) {
            let at = rg.range(0, v.groups.len());
            v.groups.insert(at, vec![it]);
        } else {
            let g = rg.below(v.groups.len());
            let at = rg.range(0, v.groups[g].len());
            v.groups[g].insert(at, it);
        }
    }
}

fn gen_doc_lines(rg: &mut Rg) -> Vec<DocLine> {
    let n = rg.weighted(&[(3, 0usize), (3, 1), (3, 2), (2, 3), (1, 4)]);
    let texts = [
        " I am documented.", " second line", "no leading space", "  two leading spaces", "\ttab first", "", " ", " with \"quotes\" and \\ backslash",
        " braces {0} {x}", " ünïcödé 🦀", " trailing space ", "   ", " * starred", " `code` and [link](x)",
    ];
    (0..n)
        .map(|_| {
            let mut text = rg.pick(&texts).to_string();
            let style = rg.weighted(&[(5, DocStyle::Line), (3, DocStyle::Attr), (2, DocStyle::Block)]);
            match style {
                DocStyle::Line => {
                    // `////` is an ordinary comment
                    if text.starts_with('/') {
                        text.insert(0, ' ');
                    }
                }
                DocStyle::Block => {
                    // `/***` and `/**/` are ordinary comments; the text must not end the comment
                    if text.is_empty() || text.starts_with('*') || text.starts_with('/') {
                        text.insert(0, ' ');
                    }
                    text = text.replace("*/", "* /");
                    if rg.chance(1, 2) {
                        text.push_str("\n second physical line ");
                    }
                }
                DocStyle::Attr => {}
            }
            DocLine { style, text }
        })
        .collect()
}

/// Meta-family enum (C14 / C15): string-family enum plus messages, docs and properties
pub fn gen_meta(rg: &mut Rg, cfg: &GenCfg, props: bool) -> EnumSpec {
    let mut e = gen_string(rg, cfg);
    for vi in 0..e.variants.len() {
        let mut items = Vec::new();
        if !props {
            if rg.chance(1, 2) {
                items.push(VAttr::Message(rg.pick(MESSAGES).to_string()));
            }
            if rg.chance(1, 3) {
                items.push(VAttr::Detailed(rg.pick(MESSAGES).to_string()));
            }
            e.variants[vi].docs = gen_doc_lines(rg);
            e.variants[vi].docs_last = rg.chance(1, 4);
        } else {
            let ngroups = rg.weighted(&[(2, 0usize), (4, 1), (3, 2), (2, 3)]);
            let mut used: Vec<(String, u8)> = Vec::new();
            for _ in 0..ngroups {
                let np = rg.range(0, 3);
                let mut g = Vec::new();
                for _ in 0..np {
                    let k = rg.pick(PROP_KEYS).to_string();
                    let (val, t) = match rg.below(3) {
                        0 => (PropVal::Str(rg.pick(PROP_STRINGS).to_string()), 0u8),
                        1 => {
                            let x = *rg.pick(&[0i64, 1, -1, 16, 201, -5, i64::MAX, i64::MIN, 255, 1000000007, -42]);
                            (PropVal::Int(x, rg.chance(1, 4)), 1)
                        }
                        _ => (PropVal::Bool(rg.chance(1, 2)), 2),
                    };
                    // a (key, type) pair is declared at most once per variant (statement silent on duplicates)
                    if used.contains(&(k.clone(), t)) {
                        continue;
                    }
                    used.push((k.clone(), t));
                    g.push((k, val));
                }
                items.push(VAttr::Props(g));
            }
        }
        scatter(rg, &mut e.variants[vi], items);
    }
    // two variants whose property lists read the same once keys and values are run together
    // (`ch = 12` / `ch1 = 2`): they are different declarations
    if props && e.variants.len() >= 2 && rg.chance(1, 5) {
        let a = rg.below(e.variants.len() - 1);
        let b = rg.range(a + 1, e.variants.len() - 1);
        let (pa, pb): (Vec<(String, PropVal)>, Vec<(String, PropVal)>) = if rg.chance(1, 2) {
            (vec![("ch".into(), PropVal::Int(12, false))], vec![("ch1".into(), PropVal::Int(2, false))])
        } else {
            (vec![("armed".into(), PropVal::Bool(true)), ("muted".into(), PropVal::Bool(false))], vec![("armedtruemuted".into(), PropVal::Bool(false))])
        };
        e.variants[a].groups.push(vec![VAttr::Props(pa)]);
        e.variants[b].groups.push(vec![VAttr::Props(pb)]);
    }
    e
}

/// Table-family enum (C10): field-less, >= 1 enabled variant
pub fn gen_table(rg: &mut Rg, n_enabled: usize) -> EnumSpec {
    let mut e = EnumSpec::new("En");
    e.derives = vec!["EnumTable".into()];
    let extra = rg.weighted(&[(2, 0usize), (2, 1), (1, 2), (1, 3)]);
    let n = n_enabled + extra;
    let mut dis: Vec<usize> = (0..n).collect();
    rg.shuffle(&mut dis);
    dis.truncate(extra);
    let mut idents: Vec<&str> = IDENTS.iter().copied().filter(|i| method_safe(i)).collect();
    rg.shuffle(&mut idents);
    let mut used: Vec<String> = Vec::new();
    let mut ii = 0;
    while e.variants.len() < n && ii < idents.len() {
        let id = idents[ii];
        ii += 1;
        let m = model::snake_method(id);
        if used.contains(&m) || m.is_empty() {
            continue;
        }
        used.push(m);
        let mut v = VariantSpec::unit(id);
        if dis.contains(&e.variants.len()) {
            let tag = e.variants.len();
            v.groups = disabled_attrs(rg, tag);
        } else if rg.chance(1, 5) {
            // unrelated attributes must not disturb the table
            v.groups.push(vec![VAttr::Serialize("x".into())]);
        }
        e.variants.push(v);
    }
    // a DISABLED variant may share its snake_case name with an enabled one (it has no slot): put such a
    // twin right before its enabled partner
    if rg.chance(1, 5) {
        let (a, b) = *rg.pick(IDENT_PAIRS);
        if model::snake_method(a) == model::snake_method(b) && !e.variants.iter().any(|v| model::snake_method(&v.ident) == model::snake_method(a)) {
            let mut d = VariantSpec::unit(a);
            d.groups = disabled_attrs(rg, 99);
            let en = VariantSpec::unit(b);
            let at = rg.range(0, e.variants.len());
            e.variants.insert(at, en);
            e.variants.insert(at, d);
        }
    }
    // explicit discriminants in no particular order must not reorder the table
    if rg.chance(1, 3) {
        let mut vals: Vec<i128> = (0..e.variants.len() as i128).map(|i| i * 5 + 2).collect();
        rg.shuffle(&mut vals);
        for (v, x) in e.variants.iter_mut().zip(vals) {
            v.disc = Some(Disc { text: format!("{}", x), value: x });
        }
    }
    // a #[repr] on the key enum must not change which slot a key owns
    if rg.chance(1, 3) {
        let max = e.variants.iter().filter_map(|v| v.disc.as_ref().map(|d| d.value)).max().unwrap_or(e.variants.len() as i128);
        let r = if max < 250 { *rg.pick(&["u8", "u8", "i32", "u64"]) } else { *rg.pick(&["u16", "i32"]) };
        e.repr = Some(r.to_string());
        e.repr_int = Some(r.to_string());
    }
    // another derive on the same enum whose own attributes (`strum_discriminants(strum(disabled))`: disabled in
    // the DISCRIMINANT enum only) are none of the table's business
    if rg.chance(1, 6) {
        e.derives.push("EnumDiscriminants".into());
        e.disc_opts = Some(DiscOpts { derives: vec!["strum::EnumCount".into()], ..Default::default() });
        let enabled: Vec<usize> = (0..e.variants.len()).filter(|&i| !e.variants[i].disabled()).collect();
        if !enabled.is_empty() {
            let at = *rg.pick(&enabled);
            e.variants[at].disc_passthrough.push("strum(disabled)".to_string());
        }
    }
    add_noise(rg, &mut e);
    irrelevant_enum_attrs(rg, &mut e, false, true);
    variant_noise(rg, &mut e, true);
    e
}

/// A table enum with more keys than fit a byte (C10)
pub fn gen_table_large(rg: &mut Rg, n: usize) -> EnumSpec {
    let mut e = EnumSpec::new("En");
    e.derives = vec!["EnumTable".into()];
    let dis: Vec<usize> = (0..3).map(|_| rg.below(n)).collect();
    for i in 0..n {
        let mut v = VariantSpec::unit(&format!("K{}", i));
        if dis.contains(&i) {
            v.groups = disabled_attrs(rg, i);
        }
        e.variants.push(v);
    }
    if rg.chance(1, 2) {
        e.repr = Some("u16".to_string());
        e.repr_int = Some("u16".to_string());
    }
    e
}

/// Discriminants-family enum (C09)
pub fn gen_disc(rg: &mut Rg) -> EnumSpec {
    for _attempt in 0..40 {
        let mut e = EnumSpec::new("En");
        e.derives = vec!["EnumDiscriminants".into()];
        e.type_param = rg.chance(1, 4);
        e.lifetime = rg.chance(1, 5);
        e.where_clause = e.type_param && rg.chance(1, 2);
        e.generic_defaults = e.type_param && rg.chance(1, 3);
        let repr = *rg.pick(&[None, None, Some("u8"), Some("i32"), Some("u16"), Some("i8"), Some("align(4), u8"), Some("u64"), Some("C"), Some("C, u8"), Some("i16, C")]);
        e.repr = repr.map(|s| s.to_string());
        e.repr_int = repr.and_then(|s| s.split(',').map(|t| t.trim()).find(|t| t.starts_with('u') || t.starts_with('i'))).map(|t| t.to_string());
        let (lo, hi) = match e.repr_int.as_deref() {
            Some(r) => model::repr_range(Some(r)),
            None => (i32::MIN as i128, i32::MAX as i128),
        };
        // `C` together with an integer is only legal on an enum with fields
        let c_and_int = e.repr_int.is_some() && repr.map_or(false, |r| r.split(',').any(|t| t.trim() == "C"));
        let data = c_and_int || rg.chance(2, 3);
        let explicit_ok = !(data && e.repr_int.is_none());
        let n = rg.range(1, 7);
        let frag = if explicit_ok && rg.chance(1, 5) { Some(*rg.pick(FRAGMENTS)) } else { None };
        if let Some((text, _)) = frag {
            e.macro_args.push(("a".to_string(), "expr".to_string(), text.to_string()));
        }
        let mut idents: Vec<&str> = IDENTS.iter().copied().filter(|s| s.is_ascii()).collect();
        rg.shuffle(&mut idents);
        if rg.chance(1, 10) {
            let at = rg.below(3).min(idents.len());
            idents.insert(at, *rg.pick(&["r#type", "r#match", "r#ref"]));
        }
        let mut stems: Vec<&str> = STEMS.iter().copied().filter(|s| s.chars().all(|c| c.is_ascii_alphanumeric() || c == '-' || c == '_')).collect();
        rg.shuffle(&mut stems);
        let pool = [FieldTy::U8, FieldTy::Str, FieldTy::NoDef, FieldTy::NoDef, FieldTy::Bool, FieldTy::VecU8, FieldTy::Pay];
        let mut opts = DiscOpts::default();
        if rg.chance(1, 2) {
            opts.name = Some(rg.pick(&["Kind", "Tag", "MyDiscr", "En_kind", "Discriminant"]).to_string());
        }
        opts.vis = rg.pick(&[None, None, Some("pub"), Some("pub(crate)"), Some("pub(super)"), Some("")]).map(|s| s.to_string());
        let dpool = ["strum::EnumIter", "strum::EnumString", "strum::Display", "strum::VariantNames", "strum::FromRepr", "Hash", "PartialOrd", "Ord"];
        for d in dpool.iter() {
            if rg.chance(1, 3) {
                opts.derives.push(d.to_string());
            }
        }
        if opts.derives.iter().any(|d| d == "Ord") && !opts.derives.iter().any(|d| d == "PartialOrd") {
            opts.derives.push("PartialOrd".into());
        }
        let strumy = opts.derives.iter().any(|d| d.starts_with("strum::") && d != "strum::EnumIter" && d != "strum::FromRepr");
        if strumy && rg.chance(1, 2) {
            opts.passthrough.push(format!("strum(serialize_all = \"{}\")", rg.pick(&model::STYLES)));
        }
        // several pass-through attributes with the same path must all arrive
        if strumy && rg.chance(1, 3) {
            opts.passthrough.push(format!("strum(prefix = \"{}\")", rg.pick(&["p_", "kind/", "D"])));
        }
        if strumy && rg.chance(1, 4) {
            opts.passthrough.push("strum(ascii_case_insensitive)".to_string());
        }
        if opts.passthrough.len() > 1 {
            rg.shuffle(&mut opts.passthrough);
            // sometimes written as one attribute list
            if rg.chance(1, 2) {
                let joined = opts.passthrough.join(", ");
                opts.passthrough = vec![joined];
            }
        }
        if rg.chance(1, 4) {
            opts.docs.push("The kind of thing.".into());
        }
        // derive(Default) on D needs its `#[default]` variant, requested through a variant-level pass-through
        let want_default = if rg.chance(1, 4) { Some(rg.below(n)) } else { None };
        if want_default.is_some() {
            opts.derives.push("Default".to_string());
        }
        let mut prev: Option<i128> = None;
        for vi in 0..n {
            let mut v = VariantSpec::unit(idents[vi]);
            if data {
                v.kind = rg.weighted(&[(2, Kind::Unit), (4, Kind::Tuple), (3, Kind::Named)]);
                let nf = if v.kind == Kind::Unit { 0 } else { rg.range(0, 3) };
                v.fields = gen_fields(rg, v.kind, nf, &pool, &e);
            }
            let implicit = prev.map(|p| p + 1).unwrap_or(0);
            let mut val = implicit;
            if explicit_ok && rg.chance(2, 5) {
                val = match rg.below(4) {
                    0 => implicit + rg.range(1, 9) as i128,
                    1 => rg.range(0, 60) as i128,
                    2 => 1i128 << rg.range(0, 6),
                    _ => implicit - rg.range(2, 20) as i128,
                };
                let text = match rg.below(3) {
                    0 if val >= 0 => format!("{:#x}", val),
                    1 if val > 0 && val.count_ones() == 1 => format!("1 << {}", val.trailing_zeros()),
                    _ => format!("{}", val),
                };
                v.disc = Some(Disc { text, value: val });
            }
            if let Some((_, a)) = frag {
                if rg.chance(1, 2) {
                    let (text, value) = fragment_disc(rg, a, lo < 0);
                    val = value;
                    v.disc = Some(Disc { text, value });
                }
            }
            prev = Some(val);
            if want_default == Some(vi) {
                // a bare word is a legal pass-through too: `#[strum_discriminants(default)]` becomes `#[default]`
                v.disc_passthrough.push("default".to_string());
            }
            // E-only strum attributes must not reach D
            let mut attrs = Vec::new();
            if rg.chance(1, 4) {
                attrs.push(VAttr::Serialize(format!("e-only-{}", stems[vi % stems.len()])));
            }
            if rg.chance(1, 8) {
                attrs.push(VAttr::Disabled);
            }
            v.groups = layout(rg, attrs, false);
            if strumy && rg.chance(1, 4) {
                v.disc_passthrough.push(format!("strum(serialize = \"pt-{}\")", stems[vi % stems.len()]));
                // sometimes a second, separate pass-through attribute on the same variant
                if rg.chance(1, 2) {
                    v.disc_passthrough.push(format!("strum(to_string = \"ptt-{}-{}\")", stems[vi % stems.len()], vi));
                }
            }
            if rg.chance(1, 4) {
                v.docs = vec![DocLine { style: DocStyle::Line, text: " documented variant".into() }];
            }
            e.variants.push(v);
        }
        // generics carrier
        let uses = |e: &EnumSpec, t: FieldTy| e.variants.iter().any(|v| v.fields.iter().any(|f| f.ty == t));
        let mut need = vec![];
        if e.type_param && !uses(&e, FieldTy::Gen) {
            need.push(FieldTy::Gen);
        }
        if e.lifetime && !uses(&e, FieldTy::RefStr) {
            need.push(FieldTy::RefStr);
        }
        if !need.is_empty() {
            if !data && !explicit_ok {
                continue;
            }
            let mut v = VariantSpec::unit("GenericsCarrier");
            v.kind = Kind::Tuple;
            v.fields = need.into_iter().map(|ty| FieldSpec { name: None, ty, default_with: false }).collect();
            if e.repr_int.is_none() && e.variants.iter().any(|x| x.disc.is_some()) {
                continue;
            }
            e.variants.push(v);
        }
        if c_and_int && e.variants.iter().all(|v| v.fields.is_empty()) {
            continue; // rustc: conflicting representation hints on a field-less enum
        }
        e.disc_opts = Some(opts);
        // a custom parse error declared on the source enum (together with an explicit crate path, in one list) is the
        // source enum's business: D keeps strum's own error type
        if rg.chance(1, 6) && e.crate_path().is_none() {
            e.groups.push(vec![EAttr::Crate("::strum".to_string()), EAttr::ParseErr]);
        }
        // the source enum may derive std's Default itself: its `#[default]` marker is none of D's business
        if rg.chance(1, 5) {
            let units: Vec<usize> = e.variants.iter().enumerate().filter(|(_, v)| v.kind == Kind::Unit).map(|(i, _)| i).collect();
            if !units.is_empty() {
                let at = *rg.pick(&units);
                e.variants[at].noise.push("#[default]".to_string());
                e.noise.push((0, "#[derive(Default)]".to_string()));
            }
        }
        // the source enum's own visibility varies as well (the glue sits in the parent module)
        e.vis = rg.pick(&["pub", "pub", "pub(crate)", "pub(super)"]).to_string();
        irrelevant_enum_attrs(rg, &mut e, false, false);
        add_noise(rg, &mut e);
        variant_noise(rg, &mut e, true);
        let ds = model::discs(&e);
        let mut s = ds.clone();
        s.sort();
        s.dedup();
        if s.len() != ds.len() || ds.iter().any(|d| *d < lo || *d > hi) {
            continue;
        }
        // names of the discriminant enum (pass-through style, folded when case-insensitivity is passed through)
        // must stay distinct, otherwise its own from_str is ambiguous
        {
            let o = e.disc_opts.as_ref().unwrap();
            let all = o.passthrough.join(", ");
            let style = all.find("serialize_all = \"").map(|i| {
                let r = &all[i + 17..];
                r[..r.find('"').unwrap()].to_string()
            });
            let mut names: Vec<String> = e
                .variants
                .iter()
                .map(|v| {
                    let pt = v.disc_passthrough.iter().find_map(|p| p.strip_prefix("strum(serialize = \"").and_then(|r| r.strip_suffix("\")")).map(|s| s.to_string()));
                    pt.unwrap_or_else(|| model::case(&v.ident, style.as_deref())).to_ascii_lowercase()
                })
                .collect();
            names.sort();
            let n0 = names.len();
            names.dedup();
            if names.len() != n0 {
                continue;
            }
        }
        // FromRepr on D without an integer repr takes usize: negative discriminants would not compile
        if e.repr_int.is_none() && ds.iter().any(|d| *d < 0) {
            continue;
        }
        return e;
    }
    let mut e = EnumSpec::new("En");
    e.derives = vec!["EnumDiscriminants".into()];
    e.variants.push(VariantSpec::unit("A"));
    e.variants.push(VariantSpec::unit("B"));
    e.disc_opts = Some(DiscOpts::default());
    e
}

/// A `#[strum(default_with = "..")]` on the field of a *tuple* variant is legal source that no derive reads (the
/// field-level form belongs to named fields). Chosen by a hash of the identifier, not by the generator's stream,
/// so that the streams of all other choices stay as they were.
fn inert_tuple_field_attrs(v: &mut VariantSpec, kind: Kind) {
    if kind != Kind::Tuple {
        return;
    }
    let h = crate::fnv(v.ident.as_bytes());
    for (fi, f) in v.fields.iter_mut().enumerate() {
        if f.ty.dw().is_some() && f.ty != FieldTy::StaticStr && (h >> (fi * 3)) % 4 == 0 {
            f.default_with = true;
        }
    }
}

/// C19: restrict a spec to `core`-only payload types, plain ASCII literals and ordinary identifiers.
pub fn coreify(e: &mut EnumSpec) {
    for (vi, v) in e.variants.iter_mut().enumerate() {
        let transparent_or_default = v.transparent() || v.is_default();
        for f in v.fields.iter_mut() {
            f.ty = match f.ty {
                FieldTy::Str | FieldTy::VecU8 => {
                    if transparent_or_default {
                        FieldTy::CoreW
                    } else {
                        FieldTy::StaticStr
                    }
                }
                FieldTy::BoxStr | FieldTy::RcStr | FieldTy::ArcStr | FieldTy::Wrap => FieldTy::CoreW,
                FieldTy::Pay | FieldTy::Spy | FieldTy::NoDef => FieldTy::U8,
                FieldTy::Inner => FieldTy::StaticStr,
                t => t,
            };
            if f.default_with && f.ty.dw().is_none() {
                f.default_with = false;
            }
            if f.ty == FieldTy::StaticStr && f.default_with {
                f.default_with = false;
            }
        }
        if v.default_with() && (v.fields.is_empty() || v.fields[0].ty.dw().is_none() || v.fields[0].ty == FieldTy::StaticStr) {
            for g in v.groups.iter_mut() {
                g.retain(|a| !matches!(a, VAttr::DefaultWith));
            }
            v.groups.retain(|g| !g.is_empty());
        }
        // a default variant captures through From<&str>: only the local W type can do that without alloc
        if v.is_default() && !v.fields.is_empty() {
            v.fields[0].ty = FieldTy::CoreW;
        }
        // ordinary identifiers
        let clean: String = v.ident.chars().filter(|c| c.is_ascii_alphanumeric()).collect();
        let mut id = String::new();
        for (i, c) in clean.chars().enumerate() {
            if i == 0 {
                id.extend(c.to_uppercase());
            } else {
                id.push(c);
            }
        }
        if id.is_empty() || id.chars().next().unwrap().is_ascii_digit() {
            id = format!("V{}", id);
        }
        v.ident = format!("{}{}", id, vi);
        // plain literals
        for g in v.groups.iter_mut() {
            for a in g.iter_mut() {
                match a {
                    VAttr::Serialize(s) | VAttr::Message(s) | VAttr::Detailed(s) => {
                        *s = s.chars().filter(|c| c.is_ascii_alphanumeric() || *c == ' ' || *c == '-' || *c == '_').collect();
                    }
                    VAttr::ToString(s) => {
                        *s = s.chars().filter(|c| c.is_ascii_alphanumeric() || " -_{}:<>^.?#+$".contains(*c)).collect();
                    }
                    VAttr::Props(ps) => {
                        for (_, pv) in ps.iter_mut() {
                            if let PropVal::Str(s) = pv {
                                *s = s.chars().filter(|c| c.is_ascii_alphanumeric() || *c == ' ').collect();
                            }
                        }
                    }
                    _ => {}
                }
            }
        }
        for d in v.docs.iter_mut() {
            d.text = d.text.chars().filter(|c| c.is_ascii_alphanumeric() || *c == ' ').collect();
            if d.style == DocStyle::Block && d.text.trim().is_empty() {
                d.text = " doc ".into();
            }
        }
    }
    for g in e.groups.iter_mut() {
        for a in g.iter_mut() {
            if let EAttr::Prefix(s) = a {
                *s = s.chars().filter(|c| c.is_ascii_alphanumeric() || *c == '_').collect();
            }
        }
    }
    repair_spellings(e);
}


/// C17: the placeholder arrives through the enum-level prefix; every variant is a one-field tuple
pub fn gen_prefix_placeholder(rg: &mut Rg) -> EnumSpec {
    let mut e = EnumSpec::new("En");
    e.derives = vec!["Display".into()];
    let prefix = *rg.pick(&["{0}/", "<{0:>3}> ", "{0}", "id={0:?};"]);
    e.groups = vec![vec![EAttr::Prefix(prefix.to_string())]];
    if rg.chance(1, 2) {
        e.groups.push(vec![EAttr::SerializeAll(rg.pick(&model::STYLES).to_string())]);
    }
    let n = rg.range(1, 4);
    let mut idents: Vec<&str> = IDENTS.iter().copied().filter(|s| s.is_ascii()).collect();
    rg.shuffle(&mut idents);
    for vi in 0..n {
        let mut v = VariantSpec::unit(idents[vi]);
        v.kind = Kind::Tuple;
        v.fields = vec![FieldSpec { name: None, ty: *rg.pick(&[FieldTy::U8, FieldTy::Str, FieldTy::I32]), default_with: false }];
        match rg.below(3) {
            0 => {}
            1 => v.groups = vec![vec![VAttr::ToString(format!("plain{}", vi))]],
            _ => v.groups = vec![vec![VAttr::ToString(format!("own[{{0}}]{}", vi))]],
        }
        e.variants.push(v);
    }
    e
}

/// ordinary identifiers for the plain part of a corpus (distinct under every style and as method names)
pub const PLAIN_IDENTS: &[&str] = &[
    "Red", "Green", "Blue", "DarkBlack", "RebeccaPurple", "BrightWhite", "Dim", "Yellow", "Monday", "NotFound", "Purple", "Orange", "Cyan", "Magenta",
    "Teal", "Crimson", "Indigo", "HttpServer", "UserId", "Var10", "Hello2You", "Utf8Error", "Sha256", "Base64Url", "LightGoldenrodYellow",
];

/// Rewrite a generated program so that it only uses documented constructs spelled the ordinary way
/// (see `plain`): boundary spellings are replaced, the structure (kinds, fields, attributes, discriminants,
/// generics) stays. Returns false - and leaves the program untouched - where that is not possible.
pub fn plainify(e: &mut EnumSpec) -> bool {
    use crate::plain;
    if plain::is_plain(e) {
        return true;
    }
    let backup = e.clone();
    let bail = |e: &mut EnumSpec, b: EnumSpec| {
        *e = b;
        false
    };
    if e.macro_args.iter().all(|(n, k, _)| (n == "n" && k == "ident") || n == "body" || n == "attrs" || n == "lits" || n == "fids") {
        e.macro_args.clear();
    }
    if e.variants.is_empty() || e.variants.len() > 12 || !e.macro_args.is_empty() || e.base_const.is_some() {
        *e = backup;
        return false;
    }
    if let Some(r) = &e.repr {
        if r.contains(',') || r.contains(';') || r == "C" {
            return false;
        }
    }
    e.decoys.clear();
    e.generic_defaults = false;
    for g in e.groups.iter_mut() {
        g.retain(|a| !matches!(a, EAttr::Crate(_)));
        for a in g.iter_mut() {
            if let EAttr::Prefix(p) = a {
                if p.is_empty() || !p.chars().all(|c| c.is_ascii_alphanumeric() || "_:/.-".contains(c)) {
                    *p = "pre_".to_string();
                }
            }
        }
    }
    if e.mixed_case_overlap {
        return bail(e, backup);
    }
    if e.has_generics() {
        for g in e.groups.iter_mut() {
            g.retain(|a| !matches!(a, EAttr::UsePhf));
        }
    }
    // attributes no derive of this enum reads, and companions that contradict each other, go
    let derives = e.derives.clone();
    for g in e.groups.iter_mut() {
        g.retain(|a| plain::enum_attr_consumed(&derives, a));
    }
    e.groups.retain(|g| !g.is_empty());
    let lists_names = derives.iter().any(|d| d == "VariantNames" || d == "EnumMessage");
    let has_enum_string = derives.iter().any(|d| d == "EnumString");
    for v in e.variants.iter_mut() {
        let (is_default, disabled, transparent) = (v.is_default(), v.disabled(), v.transparent());
        for g in v.groups.iter_mut() {
            g.retain(|a| {
                if !plain::variant_attr_consumed(&derives, a) {
                    return false;
                }
                match a {
                    VAttr::DefaultWith => !is_default && !disabled,
                    VAttr::Serialize(_) => !is_default && !transparent && (!disabled || lists_names),
                    VAttr::ToString(_) => !transparent && (!disabled || lists_names),
                    VAttr::Transparent => !disabled && !is_default,
                    VAttr::Ci(_) | VAttr::Message(_) | VAttr::Detailed(_) | VAttr::Props(_) => !disabled,
                    _ => true,
                }
            });
        }
        v.groups.retain(|g| !g.is_empty());
        if !has_enum_string || is_default || disabled || v.kind == Kind::Tuple {
            for f in v.fields.iter_mut() {
                f.default_with = false;
            }
        }
    }
    // identifiers
    let mut used: Vec<String> = e.variants.iter().map(|v| model::snake_method(&v.ident)).collect();
    for vi in 0..e.variants.len() {
        let id = e.variants[vi].ident.clone();
        let first_same = (0..vi).any(|j| model::snake_method(&e.variants[j].ident) == model::snake_method(&id));
        let ok = plain::reasons(&{
            let mut t = EnumSpec::new("t");
            t.variants.push(VariantSpec::unit(&id));
            t
        })
        .iter()
        .all(|r| r != "identifier");
        if ok && !first_same {
            continue;
        }
        match PLAIN_IDENTS.iter().find(|c| !used.contains(&model::snake_method(c)) && !e.variants.iter().any(|v| v.ident == **c)) {
            Some(c) => {
                used.push(model::snake_method(c));
                e.variants[vi].ident = c.to_string();
            }
            None => return bail(e, backup),
        }
    }
    let mut key_n = 0;
    for vi in 0..e.variants.len() {
        let v = &mut e.variants[vi];
        if v.disabled() && v.is_default() {
            return bail(e, backup);
        }
        if v.disc_passthrough.iter().any(|p| !(p.starts_with("strum(") || p == "default" || p.starts_with("doc"))) {
            return bail(e, backup);
        }
        let has_braces = v.attrs().any(|a| matches!(a, VAttr::ToString(s) | VAttr::Serialize(s) if s.contains('{') || s.contains('}')));
        if has_braces || v.fields.len() > 3 {
            return bail(e, backup);
        }
        for (fi, f) in v.fields.iter_mut().enumerate() {
            if let Some(n) = &f.name {
                if ["f", "fmt", "field0", "xx", "v", "prop", "func", "idx", "r#type"].contains(&n.as_str()) {
                    f.name = Some(format!("fld{}", fi));
                }
            }
        }
        let ident = v.ident.clone();
        let mut k = 0;
        for g in v.groups.iter_mut() {
            for a in g.iter_mut() {
                match a {
                    VAttr::Serialize(s) | VAttr::ToString(s) => {
                        k += 1;
                        let plain_name = !s.is_empty() && s.len() <= 40 && s.chars().all(|c| c.is_ascii_alphanumeric() || c == ' ' || c == '-' || c == '_') && !s.starts_with(' ') && !s.ends_with(' ');
                        if !plain_name {
                            // keep the byte length (the longest literal stays the longest)
                            let n = s.len().max(4).min(36);
                            let mut t = format!("n{}v{}", k, vi);
                            while t.len() < n {
                                t.push('a');
                            }
                            *s = t;
                        }
                        if *s == ident {
                            s.push('x');
                        }
                    }
                    VAttr::Message(s) | VAttr::Detailed(s) => {
                        if !s.chars().all(|c| c.is_ascii() && !c.is_ascii_control() && c != '{' && c != '}') {
                            *s = format!("plain text {}", vi);
                        }
                    }
                    VAttr::Props(ps) => {
                        for (key, val) in ps.iter_mut() {
                            if !key.chars().all(|c| c.is_ascii_alphanumeric() || c == '_') || key.starts_with('_') {
                                key_n += 1;
                                *key = format!("key{}", key_n);
                            }
                            if let PropVal::Str(t) = val {
                                if !t.chars().all(|c| c.is_ascii() && !c.is_ascii_control() && c != '{' && c != '}') {
                                    *t = "plain".to_string();
                                }
                            }
                        }
                    }
                    _ => {}
                }
            }
        }
    }
    if let Some(o) = e.disc_opts.as_mut() {
        if o.passthrough.iter().any(|p| !p.starts_with("strum(")) {
            return bail(e, backup);
        }
        if let Some(n) = o.name.as_mut() {
            if !(n.chars().all(|c| c.is_ascii_alphanumeric()) && n.chars().next().map_or(false, |c| c.is_ascii_uppercase())) {
                *n = "Kind".to_string();
            }
        }
        for d in o.docs.iter_mut() {
            if !d.is_ascii() || d.contains('{') || d.contains('}') {
                *d = "The kind.".to_string();
            }
        }
    }
    // renamed literals may now overlap or tie: same repair as the generators use
    let string_family = e.derives.iter().any(|d| ["EnumString", "Display", "AsRefStr", "IntoStaticStr", "VariantNames", "EnumMessage", "EnumProperty"].contains(&d.as_str()));
    if string_family {
        repair_spellings(e);
    }
    if !plain::is_plain(e) {
        return bail(e, backup);
    }
    true
}

/// A shape enum with more variants than a byte can number (C13)
pub fn gen_shape_large(rg: &mut Rg, n: usize) -> EnumSpec {
    let mut e = EnumSpec::new("En");
    e.derives = vec!["EnumIs".into(), "EnumTryAs".into()];
    let dis: Vec<usize> = (0..3).map(|_| rg.below(n)).collect();
    for i in 0..n {
        let mut v = VariantSpec::unit(&format!("Op{}", i));
        if i % 97 == 5 {
            v.kind = Kind::Tuple;
            v.fields = vec![FieldSpec { name: None, ty: FieldTy::U8, default_with: false }];
        }
        if dis.contains(&i) {
            v.groups = disabled_attrs(rg, i);
        }
        e.variants.push(v);
    }
    e
}

/// A FromRepr enum with a long run of implicit discriminants (C06)
pub fn gen_repr_large(rg: &mut Rg, repr: &str, n: usize) -> EnumSpec {
    let mut e = EnumSpec::new("En");
    e.derives = vec!["FromRepr".into()];
    e.repr = Some(repr.to_string());
    e.repr_int = Some(repr.to_string());
    let dis: Vec<usize> = (0..3).map(|_| rg.below(n)).collect();
    let start = rg.range(0, 20) as i128;
    for i in 0..n {
        let mut v = VariantSpec::unit(&format!("V{}", i));
        if i == 0 && start > 0 {
            v.disc = Some(Disc { text: format!("{}", start), value: start });
        }
        if dis.contains(&i) {
            v.groups = disabled_attrs(rg, i);
        }
        e.variants.push(v);
    }
    e
}
