//! Shared pools (DESIGN §5.1).

pub const IDENTS: &[&str] = &[
    // realistic PascalCase
    "Red", "Green", "Blue", "DarkBlack", "RebeccaPurple", "BrightWhite", "Dim", "Yellow", "Monday", "NotFound",
    "LightGoldenrodYellow", "Purple", "Orange", "Cyan", "Magenta", "Teal", "Crimson", "Indigo",
    // acronyms
    "HTTPServer", "XMLHttpRequest", "IOError", "ABC", "AbC", "TCPIPStack", "UserID", "HTMLParser", "GetHTTP",
    // digits
    "Var10", "Hello2You", "X1Y2", "V2", "Utf8Error", "IPv6Addr", "A1Bc", "AB1c", "Sha256", "Base64Url", "I18n",
    // underscores / odd casing
    "dark_black", "Dark_Black", "SCREAMING_NAME", "_Leading", "Trailing_", "Double__Under", "a", "aB", "snake_case_name",
    "mixedCase", "X", "Ab", "lower", "UPPER",
    // prelude look-alikes
    "Some", "None", "Ok", "Err", "Default", "Const", "Type", "Box", "Self_", "String", "Vec", "Option",
    // a single letter at the end of the alphabet; "Is.." inside a longer word; lower-case initial r
    "Z", "Zz", "Island", "Issue", "rax", "red",
    // ordinary names whose snake_case form is a keyword
    "Super", "Crate", "Match", "Loop", "Async", "Move", "Dyn", "Ref",
    // non-ASCII
    "Straße", "Ünï", "Éclair", "Ñandú", "Öl2", "Straße3", "Größe10",
];

/// identifiers whose generated method / field names are specified by the statement
/// (no underscore directly before a digit, ASCII only)
pub fn method_safe(id: &str) -> bool {
    let b: Vec<char> = id.chars().collect();
    for i in 1..b.len() {
        if b[i].is_ascii_digit() && b[i - 1] == '_' {
            return false;
        }
    }
    // leading / trailing / double underscores give surprising but well-defined names; keep them
    true
}

/// Spelling stems, pairwise distinct under ASCII case folding.
pub const STEMS: &[&str] = &[
    "", "red", "Green", "BLUE", "dark black", "rebecca-purple", "b", "Q", "yellow", "lime", "Fuchsia", "x1", "42", "007",
    "-", "+", "!", "a.b", "über", "ÜBER", "Größe", "GRÖSSE", "İstanbul", "日本", "🦀", "naïve", "ſtop", "K\u{212A}",
    "tab\there", " lead", "trail ", "in  ner", "q\"uote", "back\\slash", "new\nline", "mixedCase", "Mi", "kelvin", "ski",
    "mass", "Ok", "none", "DEFAULT", "snake_name", "kebab-name", "Title Name", "CamelName", "HTTP", "http2", "v", "W",
    "zz", "Zy", "zX", "long spelling with several words", "ß", "ẞ", "ı", "ǅ", "é", "É", "0", "_", "__", "a_", "_a1",
    "semi;colon", "per%cent", "#hash", "@at", "sla/sh", "(paren)", "[br]", "<lt>", "que?", "ast*", "ti~lde", "ca^ret",
    "pi|pe", "amp&", "dol$", "eq=", "com,ma", "co:lon", "apos'", "grave`",
    // escaped braces are not placeholders: the literal is the name, verbatim, for every derive
    "set{{}}", "open{{", "}}close", "a{{b}}c",
    // trailing / leading line breaks and other whitespace are part of a name
    "eol\n", "crlf\r\n", "\n", "\ttabbed", "nbsp\u{a0}",
];

/// string property values: also texts that look like other literal kinds
pub const PROP_STRINGS: &[&str] = &["Ms.Frizzle", "201", "-1", "0", "true", "false", "", "x", "1.5", "9223372036854775807", "2:30", "ünï 🦀", "a \"q\""];

pub const MESSAGES: &[&str] = &[
    "I have a dog", "My dog's name is Spots", "", " ", "msg with \"quotes\"", "back\\slash", "brace { } {0} {x}",
    "ünïcödé 🦀", "multi\nline", "tab\t", "Red", "x", "a longer message, with punctuation; and more.",
];

pub const PREFIXES: &[&str] = &["", "pre", "colour/", "ns::", "P_", "é", "日本", " ", "Pre Fix-", "ß", "{{ns}}/", "{", "}}"];
pub const PREFIXES_PLAIN: &[&str] = &["", "pre", "colour/", "ns::", "P_", "é", "日本", " "];

pub const PROP_KEYS: &[&str] = &[
    "Teacher", "Room", "students", "mandatory", "type", "fn", "match", "Self", "crate", "key", "Key", "KEY", "k",
    "color", "colour", "x1", "_u", "r", "self", "super", "async", "dyn", "long_key_name_here",
    // non-ASCII identifiers (byte length differs from the number of characters)
    "crème", "größe", "ключ", "名",
];

pub const FIELD_NAMES: &[&str] = &["x", "y", "name", "age", "range", "inner", "value", "f0", "s", "r#type", "f", "fmt", "field0", "xx", "v", "prop", "func", "idx"];

/// realistic names for C07 layer 2 (in addition to IDENTS)
pub const C07_DICT: &[&str] = &[
    "HttpStatusCode", "URLParser", "parseURL", "JSONValue", "Utf16LE", "OAuth2Token", "MD5Hash", "CPUInfo", "Ipv4Net",
    "X509Certificate", "getHTTPResponseCode", "HTTP2Stream", "AWSS3Bucket", "IoT", "ASCII", "Rgb888", "Bgra8888Srgb",
    "PDFDocument", "EOFError", "NaN", "Id", "ID", "Uuid4", "TLSv13", "SQLiteDb", "McDonald", "iPhone", "eBay",
    "A", "AB", "ABc", "AbCd", "aBC", "Ab1", "A1", "A1b", "A1B2c3", "Version2Point0", "two_words", "Three_Word_Name",
    "rgb", "red_shift", "r2d2", "rr", "rawValue", "SHOUT", "SHOUT_CASE", "mixed_Case_Name", "__dunder__", "trailing__", "a1", "a_b_c", "AbcDEFGhi", "ÉcoleÉlève",
];
