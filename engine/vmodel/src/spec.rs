//! EnumSpec: the intermediate representation of one generated enum definition.
//! The spec is the literal source of truth: the emitter prints it, the model reads it.

use serde::{Deserialize, Serialize};

/// Field types the generators draw from. `vrt` implements the rendering trait for each of them.
#[derive(Clone, Copy, Debug, PartialEq, Eq, Hash, Serialize, Deserialize)]
pub enum FieldTy {
    U8,
    I32,
    U64,
    /// usize: usable as a `name$` / `1$` width argument of another placeholder
    Usize,
    Bool,
    Char,
    Str,
    OptU16,
    VecU8,
    Unit,
    Arr2,
    /// vrt::Pay(u8) whose Default is Pay(7)
    Pay,
    /// the enum's type parameter `T` (instantiated at vrt::Pay)
    Gen,
    /// a second type parameter `U` (instantiated at u8)
    Gen2,
    /// `&'a str` under the enum's lifetime parameter (instantiated at 'static)
    RefStr,
    /// PhantomData<[u8; N]> under a const parameter
    Phantom,
    // ---- inner types for default / transparent variants
    BoxStr,
    RcStr,
    ArcStr,
    /// vrt::Wrap(String): From<&str>, Display, AsRef<str>
    Wrap,
    /// &'static str
    StaticStr,
    /// vrt::Spy: Display prints the formatter state
    Spy,
    /// vrt::Inner: a hand-written enum with Display/AsRef<str>/Into<&'static str>
    Inner,
    /// vrt::NoDef(u16): Debug + PartialEq only (no Default, no Clone)
    NoDef,
    /// C19: module-local `W` (core only): From<&str>, Default, Display, AsRef<str>
    CoreW,
}

impl FieldTy {
    pub fn rust(self) -> &'static str {
        match self {
            FieldTy::U8 => "u8",
            FieldTy::I32 => "i32",
            FieldTy::U64 => "u64",
            FieldTy::Usize => "usize",
            FieldTy::Bool => "bool",
            FieldTy::Char => "char",
            FieldTy::Str => "String",
            FieldTy::OptU16 => "Option<u16>",
            FieldTy::VecU8 => "Vec<u8>",
            FieldTy::Unit => "()",
            FieldTy::Arr2 => "[u8; 2]",
            FieldTy::Pay => "vrt::Pay",
            FieldTy::Gen => "T",
            FieldTy::Gen2 => "U",
            FieldTy::RefStr => "&'a str",
            FieldTy::Phantom => "::core::marker::PhantomData<[u8; N]>",
            FieldTy::BoxStr => "Box<str>",
            FieldTy::RcStr => "::std::rc::Rc<str>",
            FieldTy::ArcStr => "::std::sync::Arc<str>",
            FieldTy::Wrap => "vrt::Wrap",
            FieldTy::StaticStr => "&'static str",
            FieldTy::Spy => "vrt::Spy",
            FieldTy::Inner => "vrt::Inner",
            FieldTy::NoDef => "vrt::NoDef",
            FieldTy::CoreW => "W",
        }
    }
    /// `vrt::R::r` rendering of `Default::default()` for this type.
    pub fn default_render(self) -> &'static str {
        match self {
            FieldTy::U8 | FieldTy::I32 | FieldTy::U64 | FieldTy::Usize | FieldTy::Gen2 => "0",
            FieldTy::Bool => "false",
            FieldTy::Char => "'\\0'",
            FieldTy::Str | FieldTy::RefStr | FieldTy::BoxStr | FieldTy::StaticStr => "s:",
            FieldTy::RcStr | FieldTy::ArcStr => "s:",
            FieldTy::OptU16 => "None",
            FieldTy::VecU8 => "[]",
            FieldTy::Unit => "()",
            FieldTy::Arr2 => "[0, 0]",
            FieldTy::Pay | FieldTy::Gen => "Pay(7)",
            FieldTy::Phantom => "PhantomData",
            FieldTy::Wrap => "Wrap(s:)",
            FieldTy::Spy => "Spy",
            FieldTy::Inner => "Alpha",
            FieldTy::NoDef => "NoDef(0)",
            FieldTy::CoreW => "W",
        }
    }
    /// expression returned by a generated `default_with` function of this type, and its rendering.
    /// Always different from the Default value.
    pub fn dw(self) -> Option<(&'static str, &'static str)> {
        Some(match self {
            FieldTy::U8 => ("41u8", "41"),
            FieldTy::I32 => ("-17i32", "-17"),
            FieldTy::U64 => ("9_000_000_000u64", "9000000000"),
            FieldTy::Usize => ("7usize", "7"),
            FieldTy::Bool => ("true", "true"),
            FieldTy::Char => ("'q'", "'q'"),
            FieldTy::Str => ("String::from(\"dw\")", "s:dw"),
            FieldTy::OptU16 => ("Some(5u16)", "Some(5)"),
            FieldTy::VecU8 => ("vec![1u8, 2]", "[1, 2]"),
            FieldTy::Arr2 => ("[3u8, 4]", "[3, 4]"),
            FieldTy::Pay => ("vrt::Pay(99)", "Pay(99)"),
            FieldTy::RefStr => ("\"dwref\"", "s:dwref"),
            _ => return None,
        })
    }
    pub fn is_default(self) -> bool {
        !matches!(self, FieldTy::NoDef)
    }
}

#[derive(Clone, Debug, PartialEq, Serialize, Deserialize)]
pub struct FieldSpec {
    /// None for tuple fields
    pub name: Option<String>,
    pub ty: FieldTy,
    /// field-level `#[strum(default_with = "..")]` (named fields only)
    pub default_with: bool,
}

#[derive(Clone, Copy, Debug, PartialEq, Eq, Serialize, Deserialize)]
pub enum Kind {
    Unit,
    Tuple,
    Named,
}

#[derive(Clone, Debug, PartialEq, Serialize, Deserialize)]
pub enum PropVal {
    Str(String),
    Int(i64, /*hex*/ bool),
    Bool(bool),
}

/// One item inside a variant-level `#[strum(...)]`.
#[derive(Clone, Debug, PartialEq, Serialize, Deserialize)]
pub enum VAttr {
    Serialize(String),
    ToString(String),
    Disabled,
    Default,
    Transparent,
    /// variant-level default_with (function is emitted by the harness for field 0's type)
    DefaultWith,
    /// None = bare `ascii_case_insensitive`
    Ci(Option<bool>),
    Message(String),
    Detailed(String),
    Props(Vec<(String, PropVal)>),
}

#[derive(Clone, Debug, PartialEq, Serialize, Deserialize)]
pub enum DocStyle {
    /// `/// text`  (the leading space is part of `text` as written by the generator)
    Line,
    /// `#[doc = "text"]`
    Attr,
    /// `/** text */`
    Block,
}

#[derive(Clone, Debug, PartialEq, Serialize, Deserialize)]
pub struct DocLine {
    pub style: DocStyle,
    /// the value the `doc` attribute ends up with
    pub text: String,
}

#[derive(Clone, Debug, PartialEq, Serialize, Deserialize)]
pub struct Disc {
    /// expression text as emitted (e.g. `1 << 3`, `BASE + 2`, `-5`, `0x10`)
    pub text: String,
    pub value: i128,
}

#[derive(Clone, Debug, PartialEq, Serialize, Deserialize)]
pub struct VariantSpec {
    pub ident: String,
    pub kind: Kind,
    pub fields: Vec<FieldSpec>,
    pub disc: Option<Disc>,
    /// `#[strum(..)]` groups, in source order
    pub groups: Vec<Vec<VAttr>>,
    pub docs: Vec<DocLine>,
    /// docs emitted after the strum attributes instead of before
    pub docs_last: bool,
    /// `#[strum_discriminants(..)]` pass-through bodies on this variant (C09), e.g. `strum(serialize = "x")`
    pub disc_passthrough: Vec<String>,
    /// harmless non-strum attributes written among the strum attributes of the variant,
    /// before strum group number `noise_at` (0 = before all of them)
    #[serde(default)]
    pub noise: Vec<String>,
    #[serde(default)]
    pub noise_at: usize,
}

impl VariantSpec {
    pub fn unit(ident: &str) -> Self {
        VariantSpec {
            ident: ident.to_string(),
            kind: Kind::Unit,
            fields: vec![],
            disc: None,
            groups: vec![],
            docs: vec![],
            docs_last: false,
            disc_passthrough: vec![],
            noise: vec![],
            noise_at: 0,
        }
    }
    pub fn attrs(&self) -> impl Iterator<Item = &VAttr> {
        self.groups.iter().flatten()
    }
    pub fn has(&self, f: impl Fn(&VAttr) -> bool) -> bool {
        self.attrs().any(f)
    }
    pub fn disabled(&self) -> bool {
        self.has(|a| matches!(a, VAttr::Disabled))
    }
    pub fn is_default(&self) -> bool {
        self.has(|a| matches!(a, VAttr::Default))
    }
    pub fn transparent(&self) -> bool {
        self.has(|a| matches!(a, VAttr::Transparent))
    }
    pub fn default_with(&self) -> bool {
        self.has(|a| matches!(a, VAttr::DefaultWith))
    }
    pub fn serialize(&self) -> Vec<&str> {
        self.attrs()
            .filter_map(|a| if let VAttr::Serialize(s) = a { Some(s.as_str()) } else { None })
            .collect()
    }
    pub fn to_string_lit(&self) -> Option<&str> {
        self.attrs()
            .find_map(|a| if let VAttr::ToString(s) = a { Some(s.as_str()) } else { None })
    }
    pub fn ci_flag(&self) -> Option<bool> {
        self.attrs()
            .find_map(|a| if let VAttr::Ci(v) = a { Some(v.unwrap_or(true)) } else { None })
    }
    pub fn message(&self) -> Option<&str> {
        self.attrs()
            .find_map(|a| if let VAttr::Message(s) = a { Some(s.as_str()) } else { None })
    }
    pub fn detailed(&self) -> Option<&str> {
        self.attrs()
            .find_map(|a| if let VAttr::Detailed(s) = a { Some(s.as_str()) } else { None })
    }
    pub fn props(&self) -> Vec<&(String, PropVal)> {
        self.attrs()
            .filter_map(|a| if let VAttr::Props(p) = a { Some(p.iter()) } else { None })
            .flatten()
            .collect()
    }
    pub fn has_explicit_name(&self) -> bool {
        self.has(|a| matches!(a, VAttr::Serialize(_) | VAttr::ToString(_)))
    }
}

/// One item inside an enum-level `#[strum(...)]`.
#[derive(Clone, Debug, PartialEq, Serialize, Deserialize)]
pub enum EAttr {
    SerializeAll(String),
    Ci,
    Prefix(String),
    UsePhf,
    ConstIntoStr,
    /// emitted as `parse_err_ty = .., parse_err_fn = ..` (two items, adjacent)
    ParseErr,
    Crate(String),
}

/// `#[strum_discriminants(..)]` options (C09)
#[derive(Clone, Debug, PartialEq, Default, Serialize, Deserialize)]
pub struct DiscOpts {
    pub name: Option<String>,
    /// "pub", "pub(crate)", "pub(super)", "" (= explicit inherited is not expressible; None = not given)
    pub vis: Option<String>,
    pub derives: Vec<String>,
    /// enum-level pass-through bodies, e.g. `strum(serialize_all = "snake_case")`
    pub passthrough: Vec<String>,
    pub docs: Vec<String>,
}

#[derive(Clone, Debug, PartialEq, Serialize, Deserialize)]
pub struct EnumSpec {
    /// unique id of the program (module name, report key)
    pub name: String,
    /// the Rust name of the enum type; empty = same as `name`. Most programs of a corpus share one
    /// type name (in separate modules), so state leaking between macro expansions keyed by the
    /// enum's name cannot hide
    #[serde(default)]
    pub rust_name: String,
    pub lifetime: bool,
    pub type_param: bool,
    /// a second type parameter U (only together with T)
    #[serde(default)]
    pub type_param2: bool,
    pub const_param: bool,
    pub where_clause: bool,
    /// type / const parameters carry defaults (`T = ..`, `const N: usize = 3`)
    #[serde(default)]
    pub generic_defaults: bool,
    /// tokens inside `#[repr(..)]`, e.g. "u8", "align(4), u16"; `repr_int` is the integer type in it
    pub repr: Option<String>,
    pub repr_int: Option<String>,
    pub vis: String,
    pub derives: Vec<String>,
    pub groups: Vec<Vec<EAttr>>,
    pub variants: Vec<VariantSpec>,
    pub disc_opts: Option<DiscOpts>,
    /// emitted `const BASE: <repr> = <value>` referenced by discriminant expressions
    pub base_const: Option<i128>,
    /// harmless enum-level attributes interleaved with derive / repr / strum attributes:
    /// (slot, text); slot 0 = before derive, 1 = after derive, 2 = after repr, 3 = after #[strum], 4 = last
    #[serde(default)]
    pub noise: Vec<(u8, String)>,
    /// the enum item is produced by a `macro_rules!` macro: (fragment name, fragment kind, argument text).
    /// Discriminant expressions may mention `$name`; the fragment reaches the derive inside an invisible group
    #[serde(default)]
    pub macro_args: Vec<(String, String, String)>,
    /// items declared next to the enum that shadow prelude names (e.g. a local `trait Default`)
    #[serde(default)]
    pub decoys: Vec<String>,
    /// the generator paired a case-sensitive with a case-insensitive spelling on purpose (C12)
    #[serde(default)]
    pub mixed_case_overlap: bool,
    /// name of the typed constant (`BASE` if None); may look like a name the derive generates itself
    #[serde(default)]
    pub base_const_name: Option<String>,
}

impl EnumSpec {
    pub fn new(name: &str) -> Self {
        EnumSpec {
            name: name.to_string(),
            rust_name: String::new(),
            lifetime: false,
            type_param: false,
            type_param2: false,
            const_param: false,
            where_clause: false,
            generic_defaults: false,
            repr: None,
            repr_int: None,
            vis: "pub".into(),
            derives: vec![],
            groups: vec![],
            variants: vec![],
            disc_opts: None,
            base_const: None,
            noise: vec![],
            macro_args: vec![],
            decoys: vec![],
            mixed_case_overlap: false,
            base_const_name: None,
        }
    }
    pub fn type_name(&self) -> String {
        if self.rust_name.is_empty() {
            self.name.clone()
        } else {
            self.rust_name.clone()
        }
    }
    pub fn eattrs(&self) -> impl Iterator<Item = &EAttr> {
        self.groups.iter().flatten()
    }
    pub fn serialize_all(&self) -> Option<&str> {
        self.eattrs()
            .find_map(|a| if let EAttr::SerializeAll(s) = a { Some(s.as_str()) } else { None })
    }
    pub fn prefix(&self) -> Option<&str> {
        self.eattrs()
            .find_map(|a| if let EAttr::Prefix(s) = a { Some(s.as_str()) } else { None })
    }
    pub fn ci(&self) -> bool {
        self.eattrs().any(|a| matches!(a, EAttr::Ci))
    }
    pub fn use_phf(&self) -> bool {
        self.eattrs().any(|a| matches!(a, EAttr::UsePhf))
    }
    pub fn const_into_str(&self) -> bool {
        self.eattrs().any(|a| matches!(a, EAttr::ConstIntoStr))
    }
    pub fn parse_err(&self) -> bool {
        self.eattrs().any(|a| matches!(a, EAttr::ParseErr))
    }
    pub fn crate_path(&self) -> Option<&str> {
        self.eattrs()
            .find_map(|a| if let EAttr::Crate(s) = a { Some(s.as_str()) } else { None })
    }
    pub fn derives(&self, d: &str) -> bool {
        self.derives.iter().any(|x| x == d)
    }
    pub fn has_generics(&self) -> bool {
        self.lifetime || self.type_param || self.const_param
    }
    pub fn enabled_indices(&self) -> Vec<usize> {
        (0..self.variants.len()).filter(|&i| !self.variants[i].disabled()).collect()
    }
    pub fn hash64(&self) -> u64 {
        crate::fnv(serde_json::to_string(self).unwrap().as_bytes())
    }
}
