//! The *plain* part of a corpus: programs that use only constructs strum's documentation and own tests show,
//! spelled the ordinary way (ASCII PascalCase identifiers, non-empty simple literals, one of the accepted styles,
//! lone integer reprs ...). Everything the generators add to probe boundaries (empty names, braces, non-ASCII or
//! raw identifiers, keyword-like keys, prelude look-alikes, colliding names, decoys, macro-produced items,
//! parameter defaults, noise attributes ...) makes a program non-plain.
//!
//! Used by the compile-error policy: a derive that rejects a NON-plain program with its own diagnostic may have
//! tightened its validation (the program leaves the domain, it is removed and counted); a derive that rejects a
//! PLAIN program has stopped accepting documented input, which every property states as its domain.

use crate::model;
use crate::spec::*;

const LOOKALIKES: &[&str] = &["Some", "None", "Ok", "Err", "Default", "Const", "Type", "Box", "Self_", "String", "Vec", "Option", "Map", "PHF", "Entry", "OrderedMap", "phf"];
const ODD_FIELD_NAMES: &[&str] = &["f", "fmt", "field0", "xx", "v", "prop", "func", "idx", "r#type"];
const REPR_INTS: &[&str] = &["u8", "u16", "u32", "u64", "usize", "i8", "i16", "i32", "i64", "isize"];

/// does some derive in `derives` read this variant-level attribute?
pub fn variant_attr_consumed(derives: &[String], a: &VAttr) -> bool {
    let has = |names: &[&str]| derives.iter().any(|d| names.contains(&d.as_str()));
    match a {
        VAttr::Serialize(_) | VAttr::ToString(_) => has(&["EnumString", "Display", "AsRefStr", "IntoStaticStr", "VariantNames", "EnumMessage", "ToString", "AsStaticStr"]),
        VAttr::Disabled => has(&["EnumString", "Display", "AsRefStr", "IntoStaticStr", "EnumIter", "EnumCount", "EnumIs", "EnumTryAs", "EnumTable", "FromRepr", "EnumMessage", "EnumProperty", "ToString", "AsStaticStr"]),
        VAttr::Default => has(&["EnumString", "Display", "ToString"]),
        VAttr::DefaultWith | VAttr::Ci(_) => has(&["EnumString"]),
        VAttr::Transparent => has(&["Display", "AsRefStr", "IntoStaticStr"]),
        VAttr::Message(_) | VAttr::Detailed(_) => has(&["EnumMessage"]),
        VAttr::Props(_) => has(&["EnumProperty"]),
    }
}

/// does some derive in `derives` read this enum-level attribute?
pub fn enum_attr_consumed(derives: &[String], a: &EAttr) -> bool {
    let has = |names: &[&str]| derives.iter().any(|d| names.contains(&d.as_str()));
    match a {
        EAttr::SerializeAll(_) => has(&["EnumString", "Display", "AsRefStr", "IntoStaticStr", "VariantNames", "EnumMessage", "ToString", "AsStaticStr"]),
        EAttr::Prefix(_) => has(&["Display", "AsRefStr", "IntoStaticStr", "VariantNames", "ToString", "AsStaticStr"]),
        EAttr::Ci | EAttr::UsePhf | EAttr::ParseErr => has(&["EnumString"]),
        EAttr::ConstIntoStr => has(&["IntoStaticStr"]),
        EAttr::Crate(_) => true,
    }
}

/// attributes on one variant that say contradictory things or cannot have any effect together
pub fn contradictory(e: &EnumSpec, v: &VariantSpec) -> bool {
    let lists_names = e.derives.iter().any(|d| d == "VariantNames" || d == "EnumMessage");
    let named = v.has_explicit_name();
    (v.is_default() && (v.default_with() || v.fields.iter().any(|f| f.default_with) || v.disabled() || !v.serialize().is_empty()))
        || (v.disabled() && (v.default_with() || v.transparent() || v.attrs().any(|a| matches!(a, VAttr::Ci(_) | VAttr::Message(_) | VAttr::Detailed(_) | VAttr::Props(_))) || v.fields.iter().any(|f| f.default_with) || (named && !lists_names)))
        || (v.transparent() && (named || v.is_default()))
}

fn plain_ident(s: &str) -> bool {
    let mut cs = s.chars();
    let first = match cs.next() {
        Some(c) => c,
        None => return false,
    };
    s.len() >= 2 && first.is_ascii_uppercase() && s.chars().all(|c| c.is_ascii_alphanumeric()) && s.chars().any(|c| c.is_ascii_lowercase()) && !LOOKALIKES.contains(&s)
}

fn plain_name(s: &str) -> bool {
    !s.is_empty() && s.len() <= 40 && s.chars().all(|c| c.is_ascii_alphanumeric() || c == ' ' || c == '-' || c == '_') && !s.starts_with(' ') && !s.ends_with(' ')
}

fn plain_text(s: &str) -> bool {
    s.chars().all(|c| c.is_ascii() && !c.is_ascii_control() && c != '{' && c != '}')
}

/// the reasons why `e` is not plain (empty = plain)
pub fn reasons(e: &EnumSpec) -> Vec<String> {
    let mut r: Vec<String> = Vec::new();
    let mut no = |c: bool, why: &str| {
        if c {
            r.push(why.to_string());
        }
    };
    no(!e.decoys.is_empty(), "decoy items");
    no(!e.macro_args.is_empty(), "item produced by macro_rules");
    no(e.generic_defaults, "generic parameter defaults");
    no(e.base_const.is_some(), "typed constant in discriminants");
    no(e.mixed_case_overlap, "spellings of two variants deliberately equal up to case");
    no(e.use_phf() && e.has_generics(), "use_phf on a generic enum (no effect)");
    // (attributes of the language itself - docs, lints, #[non_exhaustive], #[must_use], #[derive(Default)] - are ordinary)
    no(e.variants.is_empty() || e.variants.len() > 12, "variant count");
    no(LOOKALIKES.contains(&e.type_name().as_str()), "type name");
    if let Some(rp) = &e.repr {
        no(REPR_INTS.iter().all(|i| i != rp), "compound repr");
    }
    for a in e.eattrs() {
        no(!enum_attr_consumed(&e.derives, a), "enum-level attribute that no derive of this enum reads");
        match a {
            EAttr::SerializeAll(s) => no(!model::STYLES.contains(&s.as_str()), "style"),
            EAttr::Prefix(p) => no(p.is_empty() || !p.chars().all(|c| c.is_ascii_alphanumeric() || "_:/.-".contains(c)), "prefix"),
            EAttr::Crate(_) => no(true, "crate path"),
            EAttr::Ci | EAttr::UsePhf | EAttr::ConstIntoStr | EAttr::ParseErr => {}
        }
    }
    let mut seen_names: Vec<String> = Vec::new();
    let mut seen_folded: Vec<String> = Vec::new();
    for v in &e.variants {
        no(!plain_ident(&v.ident), "identifier");
        let folded = model::snake_method(&v.ident);
        no(seen_folded.contains(&folded), "identifiers that differ only in case / word boundaries");
        seen_folded.push(folded);
        no(v.fields.len() > 3, "field count");
        no(v.fields.iter().any(|f| f.name.as_deref().map_or(false, |n| ODD_FIELD_NAMES.contains(&n))), "field name");
        no(v.disabled() && v.is_default(), "disabled default variant");
        no(contradictory(e, v), "attributes that contradict each other or cannot have an effect together");
        no(v.attrs().any(|a| !variant_attr_consumed(&e.derives, a)), "variant-level attribute that no derive of this enum reads");
        no(v.fields.iter().any(|f| f.default_with) && !e.derives.iter().any(|d| d == "EnumString"), "field-level default_with without EnumString");
        no(v.kind == Kind::Tuple && v.fields.iter().any(|f| f.default_with), "field-level attribute on a tuple field, which no derive reads");
        if let Some(d) = &v.disc {
            no(d.text.contains("BASE") || d.text.contains("_DISCRIMINANT") || d.text.contains('$'), "discriminant expression");
        }
        for p in &v.disc_passthrough {
            no(!(p.starts_with("strum(") || p == "default" || p.starts_with("doc")), "pass-through form");
        }
        for a in v.attrs() {
            match a {
                VAttr::Serialize(s) | VAttr::ToString(s) => {
                    no(!plain_name(s), "name literal");
                    no(s == &v.ident, "explicit name equal to the identifier");
                    no(seen_names.contains(s), "name declared twice");
                    seen_names.push(s.clone());
                }
                VAttr::Message(s) | VAttr::Detailed(s) => no(!plain_text(s), "message text"),
                VAttr::Props(ps) => {
                    for (k, val) in ps {
                        no(!k.chars().all(|c| c.is_ascii_alphanumeric() || c == '_') || k.starts_with('_'), "property key");
                        if let PropVal::Str(s) = val {
                            no(!plain_text(s), "property text");
                        }
                    }
                }
                VAttr::Disabled | VAttr::Default | VAttr::Transparent | VAttr::DefaultWith | VAttr::Ci(_) => {}
            }
        }
    }
    if let Some(o) = &e.disc_opts {
        if let Some(n) = &o.name {
            no(!plain_ident(n), "discriminant enum name");
        }
        no(o.passthrough.iter().any(|p| !p.starts_with("strum(")), "enum-level pass-through form");
        no(o.docs.iter().any(|d| !plain_text(d)), "discriminant docs");
    }
    r.sort();
    r.dedup();
    r
}

pub fn is_plain(e: &EnumSpec) -> bool {
    reasons(e).is_empty()
}

/// is `lit` a format literal that `format!` accepts when the fields of `v` are bound by name / by position, and
/// that contains at least one placeholder? (every `{` closed before the next one, no stray `}`, every argument -
/// placeholder or `name$` width / precision - one of the variant's fields)
pub fn valid_format_literal(lit: &str, v: &VariantSpec) -> bool {
    if v.kind == Kind::Unit {
        return false;
    }
    let s = lit.replace("{{", "").replace("}}", "");
    let mut open = false;
    let mut n = 0;
    for c in s.chars() {
        match c {
            '{' if open => return false,
            '{' => open = true,
            '}' if !open => return false,
            '}' => {
                open = false;
                n += 1;
            }
            _ => {}
        }
    }
    if open || n == 0 {
        return false;
    }
    let is_field = |a: &str| match v.kind {
        Kind::Named => v.fields.iter().any(|f| f.name.as_deref() == Some(a)),
        Kind::Tuple => !a.is_empty() && a.chars().all(|c| c.is_ascii_digit()) && a.parse::<usize>().map(|i| i < v.fields.len()).unwrap_or(false),
        Kind::Unit => false,
    };
    let args = model::placeholder_args(lit);
    args.len() >= n && args.iter().all(|a| is_field(a))
}

/// C17: what is left of an enum when everything but its interpolating `to_string` literals is taken away - a
/// `Display`-only enum with variants `V0, V1, ..` (same kinds and fields), each carrying at most its `to_string`
/// literal, and only if `format!` accepts that literal with the fields bound. A derive that rejects THIS enum
/// rejects a literal the property says it renders like `format!`. None if no such literal exists.
pub fn format_core(e: &EnumSpec) -> Option<EnumSpec> {
    let mut r = e.clone();
    r.derives = vec!["Display".to_string()];
    r.groups.clear();
    r.noise.clear();
    r.macro_args.clear();
    r.decoys.clear();
    r.repr = None;
    r.repr_int = None;
    r.disc_opts = None;
    r.base_const = None;
    r.base_const_name = None;
    let mut any = false;
    let mut vs = Vec::new();
    for (i, v) in e.variants.iter().enumerate() {
        if v.disabled() {
            continue;
        }
        let mut nv = VariantSpec::unit(&format!("V{}", i));
        nv.kind = v.kind;
        nv.fields = v.fields.clone();
        for f in nv.fields.iter_mut() {
            f.default_with = false;
        }
        if let Some(l) = v.to_string_lit() {
            if !v.is_default() && !v.transparent() && valid_format_literal(l, v) {
                nv.groups = vec![vec![VAttr::ToString(l.to_string())]];
                any = true;
            }
        }
        vs.push(nv);
    }
    r.variants = vs;
    if any {
        Some(r)
    } else {
        None
    }
}
