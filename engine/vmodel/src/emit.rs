//! Source emitter: EnumSpec -> Rust source (enum definition + harness glue).
//! The glue is written by the harness, never by strum: exhaustive index match, payload rendering,
//! constructors, and thin wrappers exposing the derived API to `vrt`'s generic checkers.

use crate::spec::*;
use std::fmt::Write;

/// Rust string literal for `s`.
pub fn lit(s: &str) -> String {
    // a deterministic minority of literals is written as raw strings
    let rawable = !s.contains("\"#") && !s.contains('\r') && !s.chars().any(|c| c.is_control() && c != '\n' && c != '\t');
    if rawable && !s.is_empty() && crate::fnv(s.as_bytes()) % 5 == 0 {
        return format!("r#\"{}\"#", s);
    }
    let mut o = String::from("\"");
    for c in s.chars() {
        match c {
            '"' => o.push_str("\\\""),
            '\\' => o.push_str("\\\\"),
            '\n' => o.push_str("\\n"),
            '\t' => o.push_str("\\t"),
            '\r' => o.push_str("\\r"),
            '\0' => o.push_str("\\0"),
            c if c.is_control() => {
                let _ = write!(o, "\\u{{{:x}}}", c as u32);
            }
            c => o.push(c),
        }
    }
    o.push('"');
    o
}

pub fn vattr(a: &VAttr, dw_fn: &str) -> String {
    match a {
        VAttr::Serialize(s) => format!("serialize = {}", lit(s)),
        VAttr::ToString(s) => format!("to_string = {}", lit(s)),
        VAttr::Disabled => "disabled".into(),
        VAttr::Default => "default".into(),
        VAttr::Transparent => "transparent".into(),
        VAttr::DefaultWith => format!("default_with = \"{}\"", dw_fn),
        VAttr::Ci(None) => "ascii_case_insensitive".into(),
        VAttr::Ci(Some(b)) => format!("ascii_case_insensitive = {}", b),
        VAttr::Message(s) => format!("message = {}", lit(s)),
        VAttr::Detailed(s) => format!("detailed_message = {}", lit(s)),
        VAttr::Props(ps) => {
            let items: Vec<String> = ps
                .iter()
                .map(|(k, v)| {
                    let v = match v {
                        PropVal::Str(s) => lit(s),
                        PropVal::Int(i, hex) => {
                            if *hex && *i >= 0 {
                                format!("{:#x}", i)
                            } else {
                                format!("{}", i)
                            }
                        }
                        PropVal::Bool(b) => format!("{}", b),
                    };
                    format!("{} = {}", k, v)
                })
                .collect();
            format!("props({})", join_list(&items, crate::fnv(items.join("|").as_bytes())))
        }
    }
}

pub fn eattr(a: &EAttr, err_ty: &str, err_fn: &str) -> String {
    match a {
        EAttr::SerializeAll(s) => format!("serialize_all = {}", lit(s)),
        EAttr::Ci => "ascii_case_insensitive".into(),
        EAttr::Prefix(s) => format!("prefix = {}", lit(s)),
        EAttr::UsePhf => "use_phf".into(),
        EAttr::ConstIntoStr => "const_into_str".into(),
        EAttr::ParseErr => format!("parse_err_ty = {}, parse_err_fn = {}", err_ty, err_fn),
        EAttr::Crate(p) => format!("crate = \"{}\"", p),
    }
}

pub struct Generics {
    /// `<'a, T: Default, const N: usize>` (declaration)
    pub decl: String,
    pub where_clause: String,
    /// `<'static, vrt::Pay, 3>` (instantiation used by the glue)
    pub inst: String,
}

pub fn generics(e: &EnumSpec, t_bound: &str, t_inst: &str) -> Generics {
    let mut decl = Vec::new();
    let mut inst = Vec::new();
    let mut wc = String::new();
    if e.lifetime {
        decl.push("'a".to_string());
        inst.push("'static".to_string());
    }
    let dflt = e.generic_defaults;
    if e.type_param {
        let d = if dflt { format!(" = {}", t_inst) } else { String::new() };
        if e.where_clause || t_bound.is_empty() {
            decl.push(format!("T{}", d));
            if !t_bound.is_empty() {
                wc = format!(" where T: {}", t_bound);
            }
        } else {
            decl.push(format!("T: {}{}", t_bound, d));
        }
        inst.push(t_inst.to_string());
        if e.type_param2 {
            let d2 = if dflt { " = u8" } else { "" };
            if e.where_clause || t_bound.is_empty() {
                decl.push(format!("U{}", d2));
                if !t_bound.is_empty() {
                    wc.push_str(&format!(", U: {}", t_bound));
                }
            } else {
                decl.push(format!("U: {}{}", t_bound, d2));
            }
            inst.push("u8".to_string());
        }
    }
    if e.const_param {
        decl.push(if dflt { "const N: usize = 3".to_string() } else { "const N: usize".to_string() });
        inst.push("3".to_string());
    }
    if decl.is_empty() {
        Generics { decl: String::new(), where_clause: String::new(), inst: String::new() }
    } else {
        Generics {
            decl: format!("<{}>", decl.join(", ")),
            where_clause: wc,
            inst: format!("<{}>", inst.join(", ")),
        }
    }
}

pub fn dw_fn_name(vi: usize, fi: usize) -> String {
    format!("dw_{}_{}", vi, fi)
}

/// `a, b` or - for some programs and positions - `a, b,`: a trailing comma is legal in every attribute list
fn join_list(items: &[String], salt: u64) -> String {
    let mut t = items.join(", ");
    if !items.is_empty() && salt % 6 == 0 {
        t.push(',');
    }
    t
}

pub struct EnumOpts<'a> {
    pub name: &'a str,
    pub derive_prefix: &'a str, // "strum::" or "strum_x::" ...
    pub t_bound: &'a str,
    pub t_inst: &'a str,
    pub extra_std_derives: &'a [&'a str],
    pub err_ty: &'a str,
    pub err_fn: &'a str,
}

/// The enum definition (with derives, attributes, default_with functions and the BASE const).
pub fn enum_def(e: &EnumSpec, o: &EnumOpts) -> String {
    // "body" mode: the macro_rules! wrapper holds the derives and the enum header, its caller supplies the name, the
    // variant list (and, with an "attrs" entry, the enum-level #[strum(..)] attributes)
    if e.macro_args.iter().any(|(n, _, _)| n == "body") {
        let mut plain = e.clone();
        plain.macro_args.clear();
        let full = enum_def(&plain, o);
        let at = full.find("//@item\n").map(|i| i + 8).unwrap_or(0);
        let (prelude, item) = full.split_at(at);
        let lines: Vec<&str> = item.lines().collect();
        let needle = format!(" enum {}", o.name);
        if let Some(h) = lines.iter().position(|l| (l.starts_with("pub") || l.starts_with(" enum") || l.starts_with("enum")) && l.contains(&needle) && l.trim_end().ends_with('{')) {
            let attrs_mode = e.macro_args.iter().any(|(n, _, _)| n == "attrs");
            let (head, rest) = lines.split_at(h);
            let header = rest[0].replacen(&needle, " enum $n", 1);
            let body = &rest[1..rest.len() - 1];
            let (strum_lines, other): (Vec<&str>, Vec<&str>) = head.iter().partition(|l| attrs_mode && l.starts_with("#[strum("));
            let mut out = String::from(prelude);
            out.push_str(if attrs_mode { "macro_rules! mk_item { ($(#[$m:meta])* $n:ident { $($body:tt)* }) => {\n" } else { "macro_rules! mk_item { ($n:ident { $($body:tt)* }) => {\n" });
            for l in &other {
                out.push_str(l);
                out.push('\n');
            }
            if attrs_mode {
                out.push_str("$(#[$m])*\n");
            }
            out.push_str(&header);
            out.push_str("\n$($body)*\n}\n} }\nmk_item!(\n");
            for l in &strum_lines {
                out.push_str(l);
                out.push('\n');
            }
            out.push_str(o.name);
            out.push_str(" {\n");
            for l in body {
                out.push_str(l);
                out.push('\n');
            }
            out.push_str("});\n");
            return out;
        }
        return full;
    }
    let mut s = String::new();
    let salt = crate::fnv(e.name.as_bytes());
    let g = generics(e, o.t_bound, o.t_inst);
    if let Some(b) = e.base_const {
        let _ = writeln!(s, "#[allow(non_upper_case_globals)] pub const {}: {} = {};", e.base_const_name.as_deref().unwrap_or("BASE"), e.repr_int.as_deref().unwrap_or("isize"), b);
    }
    // default_with functions
    for (vi, v) in e.variants.iter().enumerate() {
        for (fi, f) in v.fields.iter().enumerate() {
            let dw = f.default_with || (fi == 0 && v.kind == Kind::Tuple && v.default_with());
            if dw {
                let (expr, _) = f.ty.dw().expect("dw");
                let ty = if f.ty == FieldTy::RefStr { "&'static str" } else { f.ty.rust() };
                let _ = writeln!(s, "pub fn {}() -> {} {{ {} }}", dw_fn_name(vi, fi), ty, expr);
            }
        }
    }
    for d in &e.decoys {
        let _ = writeln!(s, "{}", d);
    }
    s.push_str("//@item\n");
    if !e.macro_args.is_empty() {
        let _ = writeln!(s, "macro_rules! mk_item {{ (@@PARAMS@@) => {{");
    }
    // "lits": the string literals of the variant attributes come from the macro's caller; "fids": the names of the
    // named fields do. Either way the literal and the field it mentions carry different hygiene contexts.
    let lits_mode = e.macro_args.iter().any(|(n, _, _)| n == "lits");
    let fids_mode = e.macro_args.iter().any(|(n, _, _)| n == "fids");
    let mut late: Vec<(String, String, String)> = vec![];
    let name_is_fragment = e.macro_args.iter().any(|(n, k, _)| n == "n" && k == "ident");
    let shown_name = if name_is_fragment { "$n" } else { o.name };
    let noise = |s: &mut String, slot: u8| {
        for (sl, t) in &e.noise {
            if *sl == slot {
                let _ = writeln!(s, "{}", t);
            }
        }
    };
    noise(&mut s, 0);
    let mut ds: Vec<String> = o.extra_std_derives.iter().map(|d| d.to_string()).collect();
    for d in &e.derives {
        ds.push(format!("{}{}", o.derive_prefix, d));
    }
    if !ds.is_empty() {
        let _ = writeln!(s, "#[derive({})]", join_list(&ds, salt ^ 0x11));
    }
    noise(&mut s, 1);
    if let Some(r) = &e.repr {
        // `a; b` = two separate attributes
        for part in r.split(';') {
            let _ = writeln!(s, "#[repr({})]", part.trim());
        }
    }
    noise(&mut s, 2);
    for (gi, grp) in e.groups.iter().enumerate() {
        let items: Vec<String> = grp.iter().map(|a| eattr(a, o.err_ty, o.err_fn)).collect();
        let _ = writeln!(s, "#[strum({})]", join_list(&items, salt.wrapping_add(gi as u64 * 7)));
        if gi == 0 {
            noise(&mut s, 5); // between the first and the second #[strum(..)] attribute
        }
    }
    if e.groups.is_empty() {
        noise(&mut s, 5);
    }
    noise(&mut s, 3);
    if let Some(d) = &e.disc_opts {
        for doc in &d.docs {
            let _ = writeln!(s, "#[strum_discriminants(doc = {})]", lit(doc));
        }
        if let Some(n) = &d.name {
            let _ = writeln!(s, "#[strum_discriminants(name({}))]", n);
        }
        if let Some(v) = &d.vis {
            let _ = writeln!(s, "#[strum_discriminants(vis({}))]", v);
        }
        if !d.derives.is_empty() {
            let _ = writeln!(s, "#[strum_discriminants(derive({}))]", join_list(&d.derives, salt ^ 0x33));
        }
        for p in &d.passthrough {
            let _ = writeln!(s, "#[strum_discriminants({})]", p);
        }
    }
    noise(&mut s, 4);
    let _ = writeln!(s, "{} enum {}{}{} {{", e.vis, shown_name, g.decl, g.where_clause);
    for (vi, v) in e.variants.iter().enumerate() {
        let mut docs = String::new();
        for d in &v.docs {
            match d.style {
                DocStyle::Line => {
                    let _ = writeln!(docs, "    ///{}", d.text);
                }
                DocStyle::Attr => {
                    let _ = writeln!(docs, "    #[doc = {}]", lit(&d.text));
                }
                DocStyle::Block => {
                    let _ = writeln!(docs, "    /**{}*/", d.text);
                }
            }
        }
        if !v.docs_last {
            s.push_str(&docs);
        }
        let at = v.noise_at.min(v.groups.len());
        for (gi, grp) in v.groups.iter().enumerate() {
            if gi == at {
                for n in &v.noise {
                    let _ = writeln!(s, "    {}", n);
                }
            }
            let mut items: Vec<String> = grp.iter().map(|a| vattr(a, &dw_fn_name(vi, 0))).collect();
            if lits_mode {
                for (a, it) in grp.iter().zip(items.iter_mut()) {
                    let (key, text) = match a {
                        VAttr::ToString(t) => ("to_string", t),
                        VAttr::Serialize(t) => ("serialize", t),
                        VAttr::Message(t) => ("message", t),
                        _ => continue,
                    };
                    let p = format!("l{}", late.len());
                    *it = format!("{} = ${}", key, p);
                    late.push((p, "literal".to_string(), lit(text)));
                }
            }
            let _ = writeln!(s, "    #[strum({})]", join_list(&items, salt.wrapping_add(1000 + vi as u64 * 31 + gi as u64)));
        }
        if at >= v.groups.len() {
            for n in &v.noise {
                let _ = writeln!(s, "    {}", n);
            }
        }
        for p in &v.disc_passthrough {
            let _ = writeln!(s, "    #[strum_discriminants({})]", p);
        }
        if v.docs_last {
            s.push_str(&docs);
        }
        let _ = write!(s, "    {}", v.ident);
        match v.kind {
            Kind::Unit => {}
            Kind::Tuple => {
                // a field-level attribute here is inert: strum reads field attributes of named fields only
                let fs: Vec<String> = v
                    .fields
                    .iter()
                    .enumerate()
                    .map(|(fi, f)| if f.default_with { format!("#[strum(default_with = \"{}\")] {}", dw_fn_name(vi, fi), f.ty.rust()) } else { f.ty.rust().to_string() })
                    .collect();
                let _ = write!(s, "({})", fs.join(", "));
            }
            Kind::Named => {
                let fs: Vec<String> = v
                    .fields
                    .iter()
                    .enumerate()
                    .map(|(fi, f)| {
                        let a = if f.default_with {
                            format!("#[strum(default_with = \"{}\")] ", dw_fn_name(vi, fi))
                        } else {
                            String::new()
                        };
                        if fids_mode {
                            let p = format!("f{}", late.len());
                            late.push((p.clone(), "ident".to_string(), f.name.clone().unwrap()));
                            return format!("{}${}: {}", a, p, f.ty.rust());
                        }
                        format!("{}{}: {}", a, f.name.as_ref().unwrap(), f.ty.rust())
                    })
                    .collect();
                let _ = write!(s, " {{ {} }}", fs.join(", "));
            }
        }
        if let Some(d) = &v.disc {
            let _ = write!(s, " = {}", d.text);
        }
        s.push_str(",\n");
    }
    s.push_str("}\n");
    if !e.macro_args.is_empty() {
        let all: Vec<&(String, String, String)> = e.macro_args.iter().filter(|(n, _, _)| n != "lits" && n != "fids").chain(late.iter()).collect();
        let args: Vec<&str> = all.iter().map(|(n, k, a)| if n == "n" && k == "ident" { o.name } else { a.as_str() }).collect();
        let _ = writeln!(s, "}} }}\nmk_item!({});", args.join(", "));
        let ps: Vec<String> = all.iter().map(|(n, k, _)| format!("${}:{}", n, k)).collect();
        s = s.replacen("@@PARAMS@@", &ps.join(", "), 1);
    }
    s
}

/// pattern binding all fields of variant v as f0, f1, ..
pub fn bind_pat(name: &str, v: &VariantSpec) -> String {
    match v.kind {
        Kind::Unit => format!("{}::{}", name, v.ident),
        Kind::Tuple => {
            let b: Vec<String> = (0..v.fields.len()).map(|i| format!("f{}", i)).collect();
            format!("{}::{}({})", name, v.ident, b.join(", "))
        }
        Kind::Named => {
            let b: Vec<String> = v
                .fields
                .iter()
                .enumerate()
                .map(|(i, f)| format!("{}: f{}", f.name.as_ref().unwrap(), i))
                .collect();
            format!("{}::{} {{ {} }}", name, v.ident, b.join(", "))
        }
    }
}

/// constructor expression for variant v with the given field expressions
pub fn ctor(name: &str, v: &VariantSpec, exprs: &[String]) -> String {
    match v.kind {
        Kind::Unit => format!("{}::{}", name, v.ident),
        Kind::Tuple => format!("{}::{}({})", name, v.ident, exprs.join(", ")),
        Kind::Named => {
            let b: Vec<String> = v
                .fields
                .iter()
                .zip(exprs.iter())
                .map(|(f, e)| format!("{}: {}", f.name.as_ref().unwrap(), e))
                .collect();
            format!("{}::{} {{ {} }}", name, v.ident, b.join(", "))
        }
    }
}

/// `impl vrt::Glue for <ty>`: index, payload rendering, constructor from draws.
pub fn glue_base(e: &EnumSpec, name: &str, inst: &str) -> String {
    let mut s = String::new();
    let ty = format!("{}{}", name, inst);
    let _ = writeln!(s, "impl vrt::Glue for {} {{", ty);
    let _ = writeln!(s, "    fn idx(&self) -> usize {{ match self {{");
    for (i, v) in e.variants.iter().enumerate() {
        let pat = match v.kind {
            Kind::Unit => format!("{}::{}", name, v.ident),
            Kind::Tuple => format!("{}::{}(..)", name, v.ident),
            Kind::Named => format!("{}::{} {{ .. }}", name, v.ident),
        };
        let _ = writeln!(s, "        {} => {},", pat, i);
    }
    if e.variants.is_empty() {
        let _ = writeln!(s, "        _ => unreachable!(),");
    }
    let _ = writeln!(s, "    }} }}");
    let _ = writeln!(s, "    fn fields(&self) -> Vec<String> {{ match self {{");
    for v in e.variants.iter() {
        let rs: Vec<String> = (0..v.fields.len()).map(|i| format!("vrt::R::r(f{})", i)).collect();
        let _ = writeln!(s, "        {} => vec![{}],", bind_pat(name, v), rs.join(", "));
    }
    if e.variants.is_empty() {
        let _ = writeln!(s, "        _ => unreachable!(),");
    }
    let _ = writeln!(s, "    }} }}");
    let _ = writeln!(s, "    fn make(i: usize, d: &mut vrt::Draw) -> Self {{ match i {{");
    for (i, v) in e.variants.iter().enumerate() {
        let ex: Vec<String> = (0..v.fields.len()).map(|_| "vrt::Mk::mk(d)".to_string()).collect();
        let _ = writeln!(s, "        {} => {},", i, ctor(name, v, &ex));
    }
    let _ = writeln!(s, "        _ => panic!(\"glue: no variant {{}}\", i),");
    let _ = writeln!(s, "    }} }}");
    let _ = writeln!(s, "}}");
    s
}

// ---------------------------------------------------------------------------------------------
// source builder with line tags

#[derive(Default, Clone)]
pub struct Src {
    pub text: String,
    pub line: usize,
    /// (line number (1-based), tag)
    pub tags: Vec<(usize, String)>,
    /// (first line, last line, tag)
    pub ranges: Vec<(usize, usize, String)>,
}
impl Src {
    pub fn push(&mut self, block: &str) {
        for l in block.lines() {
            self.text.push_str(l);
            self.text.push('\n');
            self.line += 1;
        }
    }
    /// tag every line emitted by `f`
    pub fn ranged(&mut self, tag: &str, f: impl FnOnce(&mut Src)) {
        let a = self.line + 1;
        f(self);
        let b = self.line;
        self.ranges.push((a, b, tag.to_string()));
    }
    /// single line carrying a static assertion for the property; errors on it are violations
    pub fn tagged(&mut self, line: &str, tag: &str) {
        assert!(!line.contains('\n'));
        self.text.push_str(line);
        self.text.push('\n');
        self.line += 1;
        self.tags.push((self.line, tag.to_string()));
    }
}

pub struct ModuleSrc {
    pub enum_name: String,
    pub src: Src,
}

pub struct ModOpts<'a> {
    pub property: &'a str,
    /// path of the vrt checker function, e.g. "vrt::strfam::c01"
    pub run_fn: &'a str,
    /// emit a second enum (`<name>Tw`) and call run_fn::<E, Tw>
    pub twin: Option<Twin>,
    /// also emit `pub fn fz(a: &mut vrt::FzArg)` calling this generic function (libFuzzer targets)
    pub fuzz_fn: Option<&'a str>,
}

#[derive(Clone, Copy, PartialEq, Eq, Debug)]
pub enum Twin {
    /// same spec + use_phf (C16)
    Phf,
    /// Display -> deprecated ToString + AsStaticStr (C03)
    Deprecated,
}

fn t_bound_for(e: &EnumSpec) -> &'static str {
    if e.derives("EnumString") || e.derives("EnumIter") || e.derives("FromRepr") {
        "::core::default::Default"
    } else if e.where_clause {
        // a bound that every impl for the enum has to repeat (whatever the derive)
        "::core::clone::Clone"
    } else {
        ""
    }
}

pub fn used_named(lit_s: &str, v: &VariantSpec) -> Vec<usize> {
    let ph = crate::model::placeholder_args(lit_s);
    (0..v.fields.len()).filter(|&i| ph.iter().any(|p| Some(p) == v.fields[i].name.as_ref())).collect()
}

/// `impl vrt::strfam::SGlue for ..` according to the derives of `e`
pub fn glue_string(e: &EnumSpec, name: &str, inst: &str, src: &mut Src, _prop: &str) {
    let ty = format!("{}{}", name, inst);
    src.push(&format!("impl vrt::strfam::SGlue for {} {{", ty));
    if e.derives("EnumString") {
        let custom = e.parse_err() && crate::model::default_variant(e).is_none();
        let errty = if custom { "vrt::MyErr" } else { "strum::ParseError" };
        for (f, call) in [
            ("from_str", "<Self as ::core::str::FromStr>::from_str(s)"),
            ("try_from", "<Self as ::core::convert::TryFrom<&str>>::try_from(s)"),
        ] {
            src.push(&format!("    fn {}(s: &str) -> Option<vrt::PObs> {{", f));
            if _prop == "C18" {
                // FromStr::Err / TryFrom::Error are pinned: a different type is a compile error on this line
                src.tagged(&format!("        let r: ::core::result::Result<Self, {}> = {};", errty, call), "C18:error-type");
            } else {
                src.push(&format!("        let r = {};", call));
            }
            src.push("        Some(match r { Ok(v) => vrt::PObs::ok(&v), Err(e) => vrt::PObs::err(&e) })");
            src.push("    }");
        }
        if e.parse_err() {
            src.push("    fn err_count() -> usize { ERR_CNT.load(::std::sync::atomic::Ordering::SeqCst) }");
        }
    }
    if e.derives("Display") && e.derives("EnumString") {
        src.push("    fn parse_display(s: &str) -> Option<Option<String>> { Some(<Self as ::core::str::FromStr>::from_str(s).ok().map(|v| format!(\"{}\", v))) }");
    }
    if e.derives("Display") {
        src.push("    fn disp(&self) -> Option<&dyn ::core::fmt::Display> { Some(self) }");
    }
    if e.derives("ToString") {
        src.push("    fn to_string_dep(&self) -> Option<String> { Some(::std::string::ToString::to_string(self)) }");
    }
    if e.derives("AsRefStr") {
        src.push("    fn as_ref_str(&self) -> Option<&str> { Some(<Self as ::core::convert::AsRef<str>>::as_ref(self)) }");
    }
    if e.derives("AsStaticStr") {
        src.push("    fn as_static(&self) -> Option<&'static str> { Some(<Self as strum::AsStaticRef<str>>::as_static(self)) }");
    }
    if e.derives("IntoStaticStr") {
        src.push("    fn into_static_ref(&self) -> Option<&'static str> { Some(<&'static str as ::core::convert::From<&Self>>::from(self)) }");
        src.push("    fn into_static_val(self) -> Option<&'static str> { Some(<&'static str as ::core::convert::From<Self>>::from(self)) }");
        if e.const_into_str() {
            src.tagged("    fn into_str(&self) -> Option<&'static str> { Some(Self::into_str(self)) }", "C03:into_str");
            src.push("    fn const_names() -> Vec<(usize, &'static str)> { let mut v = Vec::new();");
            for (i, v) in e.variants.iter().enumerate() {
                if v.kind == Kind::Unit && !v.disabled() && !e.has_generics() {
                    src.tagged(
                        &format!("        {{ const C: &'static str = {}::{}.into_str(); v.push(({}, C)); }}", name, v.ident, i),
                        "C03:const-into_str",
                    );
                }
            }
            src.push("        v }");
        }
    }
    if e.derives("VariantNames") {
        src.push("    fn variant_names() -> Option<&'static [&'static str]> { Some(<Self as strum::VariantNames>::VARIANTS) }");
    }
    if e.derives("EnumMessage") {
        src.push("    fn serializations(&self) -> Option<&'static [&'static str]> { Some(strum::EnumMessage::get_serializations(self)) }");
        src.push("    fn message(&self) -> Option<Option<&'static str>> { Some(strum::EnumMessage::get_message(self)) }");
        src.push("    fn detailed(&self) -> Option<Option<&'static str>> { Some(strum::EnumMessage::get_detailed_message(self)) }");
        src.push("    fn documentation(&self) -> Option<Option<&'static str>> { Some(strum::EnumMessage::get_documentation(self)) }");
    }
    if e.derives("EnumProperty") {
        src.push("    fn get_str(&self, k: &str) -> Option<Option<&'static str>> { Some(strum::EnumProperty::get_str(self, k)) }");
        src.push("    fn get_int(&self, k: &str) -> Option<Option<i64>> { Some(strum::EnumProperty::get_int(self, k)) }");
        src.push("    fn get_bool(&self, k: &str) -> Option<Option<bool>> { Some(strum::EnumProperty::get_bool(self, k)) }");
    }
    // inner field of default / transparent variants (hand-written match)
    let single: Vec<&VariantSpec> = e.variants.iter().filter(|v| (v.transparent() || v.is_default()) && v.fields.len() == 1).collect();
    if !single.is_empty() {
        src.push("    fn inner_disp(&self) -> Option<&dyn ::core::fmt::Display> { match self {");
        for v in &single {
            src.push(&format!("        {} => Some(f0 as &dyn ::core::fmt::Display),", bind_pat(name, v)));
        }
        src.push("        _ => None } }");
        let asref: Vec<&&VariantSpec> = single
            .iter()
            .filter(|v| matches!(v.fields[0].ty, FieldTy::Str | FieldTy::StaticStr | FieldTy::Wrap | FieldTy::Inner | FieldTy::BoxStr))
            .collect();
        if !asref.is_empty() {
            src.push("    fn inner_as_ref(&self) -> Option<&str> { match self {");
            for v in &asref {
                src.push(&format!("        {} => Some(::core::convert::AsRef::<str>::as_ref(f0)),", bind_pat(name, v)));
            }
            src.push("        _ => None } }");
        }
        let st: Vec<&&VariantSpec> = single.iter().filter(|v| matches!(v.fields[0].ty, FieldTy::StaticStr | FieldTy::Inner)).collect();
        if !st.is_empty() {
            src.push("    fn inner_static(&self) -> Option<&'static str> { match self {");
            for v in &st {
                let conv = if v.fields[0].ty == FieldTy::StaticStr { "*f0" } else { "f0.name()" };
                src.push(&format!("        {} => Some({}),", bind_pat(name, v), conv));
            }
            src.push("        _ => None } }");
        }
    }
    // expected rendering of placeholder variants: std's format! on the identical literal
    // (the printed literal is prefix + name: a placeholder may also arrive through the prefix)
    let ph: Vec<&VariantSpec> = e
        .variants
        .iter()
        .filter(|v| !v.transparent() && !v.disabled() && !(v.is_default() && v.to_string_lit().is_none()) && v.kind != Kind::Unit && !crate::model::placeholders(&crate::model::canonical(e, v)).is_empty())
        .collect();
    if !ph.is_empty() && e.derives("Display") {
        src.push("    fn expect_fmt(&self) -> Option<String> { match self {");
        for v in &ph {
            let l = crate::model::canonical(e, v);
            let args: Vec<String> = if v.kind == Kind::Named {
                used_named(&l, v).iter().map(|&i| format!("{} = f{}", v.fields[i].name.as_ref().unwrap(), i)).collect()
            } else {
                (0..v.fields.len()).map(|i| format!("f{}", i)).collect()
            };
            src.push(&format!("        {} => Some(format!({}, {})),", bind_pat(name, v), lit(&l), args.join(", ")));
        }
        src.push("        _ => None } }");
    }
    src.push("}");
}

pub fn enum_opts<'a>(e: &'a EnumSpec, name: &'a str) -> EnumOpts<'a> {
    EnumOpts {
        name,
        derive_prefix: "strum::",
        t_bound: t_bound_for(e),
        t_inst: "vrt::Pay",
        extra_std_derives: &[],
        err_ty: "vrt::MyErr",
        err_fn: "mk_err",
    }
}

/// One module holding one string-family enum, its glue and its `run` entry.
pub fn module_string(e: &EnumSpec, o: &ModOpts) -> ModuleSrc {
    let mut src = Src::default();
    src.push(&format!("pub mod m_{} {{", e.name.to_lowercase()));
    let clone: &[&str] = &["Clone"];
    // how the custom error function is named: plain, multi-segment path, associated function reached through
    // `Self`, generic function with a turbofish
    // 5: a bare name that generated code might use for a helper of its own (seeded change C18-31: a nested
    // `fn parse_err` inside `from_str` shadowed the user's function of that name and called itself)
    let err_form = if e.parse_err() { e.hash64() % 6 } else { 9 };
    const HELPERISH: &[&str] = &["parse_err", "from_str", "try_from", "err", "fallback", "not_found", "f", "s"];
    let helperish: &'static str = HELPERISH[((e.hash64() >> 8) % HELPERISH.len() as u64) as usize];
    let err_path = err_form == 0 || err_form == 3;
    let emit_one = |e: &EnumSpec, name: &str, src: &mut Src, mark_def: bool| {
        let mut eo = enum_opts(e, name);
        if e.use_phf() {
            eo.extra_std_derives = clone;
        }
        match err_form {
            0 => eo.err_fn = "errs::mk_err",
            2 => eo.err_fn = "Self::mk_err_assoc",
            3 => eo.err_fn = "errs::mk_err_g::<u8>",
            // generic over the argument type: cannot be coerced to one `fn(&str) -> _` pointer type
            4 => eo.err_fn = "mk_err_any",
            5 => eo.err_fn = helperish,
            _ => {}
        }
        if mark_def {
            src.ranged("def", |s| s.push(&enum_def(e, &eo)));
        } else {
            src.push(&enum_def(e, &eo));
        }
        if err_form == 2 {
            let mut nd = e.clone();
            nd.generic_defaults = false;
            let gi = generics(&nd, eo.t_bound, eo.t_inst);
            let gu = generics(&nd, "", eo.t_inst);
            let params = gu.decl.replace("'a", "'a").replace("T", "T").replace("const N: usize", "N");
            src.push(&format!("impl{} {}{}{} {{ pub fn mk_err_assoc(s: &str) -> vrt::MyErr {{ mk_err(s) }} }}", gi.decl, name, params, gi.where_clause));
        }
        let g = generics(e, eo.t_bound, eo.t_inst);
        src.push(&glue_base(e, name, &g.inst));
        glue_string(e, name, &g.inst, src, o.property);
        format!("{}{}", name, g.inst)
    };
    // half of the custom-error enums name their function through a multi-segment path, with a
    // decoy of the same name in scope (it must never be the one that is called)
    if e.parse_err() {
        src.push("pub static ERR_CNT: ::std::sync::atomic::AtomicUsize = ::std::sync::atomic::AtomicUsize::new(0);");
        if err_path {
            src.push("pub mod errs { pub fn mk_err(s: &str) -> vrt::MyErr { super::ERR_CNT.fetch_add(1, ::std::sync::atomic::Ordering::SeqCst); vrt::MyErr(s.to_string()) } pub fn mk_err_g<X>(s: &str) -> vrt::MyErr { mk_err(s) } }");
            src.push("pub fn mk_err(s: &str) -> vrt::MyErr { vrt::MyErr(format!(\"DECOY:{}\", s)) }");
        } else {
            src.push("pub fn mk_err(s: &str) -> vrt::MyErr { ERR_CNT.fetch_add(1, ::std::sync::atomic::Ordering::SeqCst); vrt::MyErr(s.to_string()) }");
            src.push("pub fn mk_err_any<S: ::core::convert::AsRef<str>>(s: S) -> vrt::MyErr { mk_err(s.as_ref()) }");
            if err_form == 5 {
                src.push(&format!("pub fn {}(s: &str) -> vrt::MyErr {{ mk_err(s) }}", helperish));
            }
        }
    }
    let name = e.type_name();
    let t1 = emit_one(e, &name, &mut src, true);
    match o.twin {
        None => {
            src.push(&format!("pub fn run(ctx: &mut vrt::Ctx) {{ {}::<{}>(ctx) }}", o.run_fn, t1));
            if let Some(f) = o.fuzz_fn {
                src.push(&format!("pub fn fz(a: &mut vrt::FzArg) {{ {}::<{}>(a) }}", f, t1));
            }
        }
        Some(tw) => {
            let mut e2 = e.clone();
            match tw {
                Twin::Phf => {
                    e2.groups.push(vec![EAttr::UsePhf]);
                }
                Twin::Deprecated => {
                    e2.derives = e2
                        .derives
                        .iter()
                        .map(|d| if d == "Display" { "ToString".to_string() } else { d.clone() })
                        .filter(|d| d != "IntoStaticStr" && d != "AsRefStr" && d != "VariantNames")
                        .collect();
                    e2.derives.push("AsStaticStr".into());
                    e2.groups.retain(|g| !g.iter().any(|a| matches!(a, EAttr::ConstIntoStr)) || g.len() > 1);
                    for g in e2.groups.iter_mut() {
                        g.retain(|a| !matches!(a, EAttr::ConstIntoStr));
                    }
                }
            }
            // the twin's dw functions would clash: put it in a nested module
            src.push("pub mod tw {");
            if e.parse_err() {
                src.push("pub use super::{mk_err, ERR_CNT};");
                if !err_path {
                    src.push("pub use super::mk_err_any;");
                }
                if err_path {
                    src.push("pub use super::errs;");
                }
            }
            // the phf twin sits in its own module: it keeps the type name (a name such as `Map` must work there too)
            let n2 = if tw == Twin::Phf { name.clone() } else { format!("{}Tw", name) };
            let mut t2 = String::new();
            let tag = if tw == Twin::Phf { "C16:phf-twin" } else { "twin" };
            src.ranged(tag, |src| {
                t2 = emit_one(&e2, &n2, src, false);
            });
            src.push("}");
            src.push(&format!("pub fn run(ctx: &mut vrt::Ctx) {{ {}::<{}, tw::{}>(ctx) }}", o.run_fn, t1, t2));
            if let Some(f) = o.fuzz_fn {
                src.push(&format!("pub fn fz(a: &mut vrt::FzArg) {{ {}::<{}, tw::{}>(a) }}", f, t1, t2));
            }
        }
    }
    src.push("}");
    ModuleSrc { enum_name: e.name.clone(), src }
}

// ---------------------------------------------------------------------------------------------
// iter family

pub fn glue_iter(e: &EnumSpec, name: &str, inst: &str, src: &mut Src) {
    let ty = format!("{}{}", name, inst);
    src.push(&format!("impl vrt::iterfam::IGlue for {} {{", ty));
    src.push("    type It = <Self as strum::IntoEnumIterator>::Iterator;");
    src.push("    fn iter() -> Self::It { <Self as strum::IntoEnumIterator>::iter() }");
    if e.derives("EnumCount") {
        src.push("    fn count() -> Option<usize> { Some(<Self as strum::EnumCount>::COUNT) }");
        src.push("    fn count_short() -> Option<usize> { #[allow(unused_imports)] use strum::EnumCount as _; Some(Self::COUNT) }");
    }
    if e.derives("VariantNames") {
        src.push("    fn variant_names() -> Option<&'static [&'static str]> { Some(<Self as strum::VariantNames>::VARIANTS) }");
    }
    if e.derives("VariantArray") {
        src.push("    fn variant_array() -> Option<Vec<usize>> { Some(<Self as strum::VariantArray>::VARIANTS.iter().map(|v| vrt::Glue::idx(v)).collect()) }");
    }
    src.push("}");
}

pub fn module_iter(e: &EnumSpec, o: &ModOpts) -> ModuleSrc {
    let mut src = Src::default();
    src.push(&format!("pub mod m_{} {{", e.name.to_lowercase()));
    let name = e.type_name();
    let eo = enum_opts(e, &name);
    src.ranged("def", |s| s.push(&enum_def(e, &eo)));
    let g = generics(e, eo.t_bound, eo.t_inst);
    src.push(&glue_base(e, &name, &g.inst));
    glue_iter(e, &name, &g.inst, &mut src);
    if o.property == "C05" {
        // the iterator type is Send + Sync whatever the type parameter is
        let g2 = generics(e, eo.t_bound, "vrt::NotSend");
        src.push("fn assert_send_sync<X: Send + Sync>() {}");
        src.tagged(
            &format!("pub fn _static_send_sync() {{ assert_send_sync::<<{}{} as strum::IntoEnumIterator>::Iterator>(); }}", name, g2.inst),
            "C05:iterator-send-sync",
        );
    }
    src.push(&format!("pub fn run(ctx: &mut vrt::Ctx) {{ {}::<{}{}>(ctx) }}", o.run_fn, name, g.inst));
    if let Some(f) = o.fuzz_fn {
        src.push(&format!("pub fn fz(a: &mut vrt::FzArg) {{ {}::<{}{}>(a) }}", f, name, g.inst));
    }
    src.push("}");
    ModuleSrc { enum_name: e.name.clone(), src }
}

// ---------------------------------------------------------------------------------------------
// repr family

pub fn module_repr(e: &EnumSpec, o: &ModOpts) -> ModuleSrc {
    let mut src = Src::default();
    src.push(&format!("pub mod m_{} {{", e.name.to_lowercase()));
    let name = e.type_name();
    let eo = enum_opts(e, &name);
    src.ranged("def", |s| s.push(&enum_def(e, &eo)));
    let g = generics(e, eo.t_bound, eo.t_inst);
    src.push(&glue_base(e, &name, &g.inst));
    let r = e.repr_int.clone().unwrap_or_else(|| "usize".to_string());
    let ty = format!("{}{}", name, g.inst);
    src.push(&format!("impl vrt::reprfam::RGlue for {} {{", ty));
    // the parameter type of from_repr is part of the statement: the repr integer type, usize if none
    src.tagged(&format!("    fn from_repr(d: i128) -> Option<Option<Self>> {{ let x: {} = ::core::convert::TryFrom::try_from(d).ok()?; Some(Self::from_repr(x)) }}", r), "C06:discriminant-type");
    let fieldless = e.variants.iter().all(|v| v.kind == Kind::Unit);
    // a field-less enum may still carry an (unused) const parameter
    let plain_generics = !e.type_param && !e.lifetime;
    let path = if e.const_param { format!("{}::<3>", name) } else { name.clone() };
    if fieldless && plain_generics && !e.variants.is_empty() {
        src.push("    fn as_repr(&self) -> Option<i128> { Some(match self {");
        for v in &e.variants {
            src.push(&format!("        {n}::{v} => ({p}::{v} as {r}) as i128,", n = name, p = path, v = v.ident, r = r));
        }
        src.push("    }) }");
    } else if e.repr_int.is_some() && !e.variants.is_empty() {
        // documented way to read the discriminant of a primitive-repr enum with fields
        src.push(&format!("    fn as_repr(&self) -> Option<i128> {{ Some(unsafe {{ *(self as *const Self as *const {}) }} as i128) }}", r));
    }
    if fieldless && plain_generics {
        src.push("    fn const_results() -> Vec<(i128, Option<usize>)> { let mut v = Vec::new();");
        let ds = crate::model::discs(e);
        let mut pts: Vec<i128> = ds.clone();
        pts.push(ds.iter().max().copied().unwrap_or(0) + 1);
        pts.sort();
        pts.dedup();
        let (lo, hi) = crate::model::repr_range(e.repr_int.as_deref());
        for d in pts {
            if d < lo || d > hi {
                continue;
            }
            src.tagged(
                &format!("        {{ const C: Option<{t}> = {p}::from_repr({d}); v.push(({d}i128, C.map(|x| vrt::Glue::idx(&x)))); }}", t = ty, p = path, d = d),
                "C06:const-from_repr",
            );
        }
        src.push("        v }");
    }
    src.push("}");
    src.push(&format!("pub fn run(ctx: &mut vrt::Ctx) {{ {}::<{}>(ctx) }}", o.run_fn, ty));
    src.push("}");
    ModuleSrc { enum_name: e.name.clone(), src }
}

// ---------------------------------------------------------------------------------------------
// shape family (EnumIs / EnumTryAs)

pub fn module_shape(e: &EnumSpec, o: &ModOpts) -> ModuleSrc {
    let mut src = Src::default();
    src.push(&format!("pub mod m_{} {{", e.name.to_lowercase()));
    let name = e.type_name();
    let eo = enum_opts(e, &name);
    src.ranged("def", |s| s.push(&enum_def(e, &eo)));
    let g = generics(e, eo.t_bound, eo.t_inst);
    src.push(&glue_base(e, &name, &g.inst));
    let ty = format!("{}{}", name, g.inst);
    src.push(&format!("impl vrt::shapefam::ShGlue for {} {{", ty));
    let meth = |v: &VariantSpec| crate::model::snake_method(&v.ident);
    // is_*  (for a disabled variant no predicate may answer true: the call below resolves to the derive's
    // inherent method if one was generated after all, otherwise to the harness's fallback trait)
    src.push("    fn is(&self, j: usize) -> Option<bool> { match j {");
    for (j, v) in e.variants.iter().enumerate() {
        if !v.disabled() {
            src.tagged(&format!("        {} => Some(self.is_{}()),", j, meth(v)), "C13:is-method-name");
        } else if !disabled_probe_clash(e, v) {
            src.push(&format!("        {} => {{ use self::probe_{}::P; Some(self.is_{}()) }}", j, j, meth(v)));
        }
    }
    src.push("        _ => None } }");
    let tuples: Vec<(usize, &VariantSpec)> = e.variants.iter().enumerate().filter(|(_, v)| v.kind == Kind::Tuple && !v.disabled()).collect();
    let tup_pat = |k: usize| -> String {
        match k {
            0 => "_u".to_string(),
            1 => "a0".to_string(),
            _ => format!("({})", (0..k).map(|i| format!("a{}", i)).collect::<Vec<_>>().join(", ")),
        }
    };
    src.push("    fn try_as(self, j: usize) -> Option<Option<Vec<String>>> { match j {");
    for (j, v) in &tuples {
        let k = v.fields.len();
        let rs: Vec<String> = (0..k).map(|i| format!("vrt::R::r(&a{})", i)).collect();
        src.tagged(&format!("        {} => Some(self.try_as_{}().map(|{}| vec![{}])),", j, meth(v), tup_pat(k), rs.join(", ")), "C13:try_as-method");
    }
    src.push("        _ => None } }");
    src.push("    fn try_as_ref(&self, j: usize) -> Option<Option<(Vec<String>, Vec<usize>)>> { match j {");
    for (j, v) in &tuples {
        let k = v.fields.len();
        let rs: Vec<String> = (0..k).map(|i| format!("vrt::R::r(a{})", i)).collect();
        let ads: Vec<String> = (0..k).map(|i| format!("a{} as *const _ as *const u8 as usize", i)).collect();
        src.tagged(
            &format!("        {} => Some(self.try_as_{}_ref().map(|{}| (vec![{}], vec![{}]))),", j, meth(v), tup_pat(k), rs.join(", "), ads.join(", ")),
            "C13:try_as_ref-method",
        );
    }
    src.push("        _ => None } }");
    src.push("    fn try_as_mut_set(&mut self, j: usize, d: &mut vrt::Draw) -> Option<Option<Vec<String>>> { match j {");
    for (j, v) in &tuples {
        let k = v.fields.len();
        let sets: Vec<String> = (0..k).map(|i| format!("*a{} = vrt::Mk::mk(d);", i)).collect();
        let rs: Vec<String> = (0..k).map(|i| format!("vrt::R::r(&*a{})", i)).collect();
        src.tagged(
            &format!("        {} => Some(self.try_as_{}_mut().map(|{}| {{ {} vec![{}] }})),", j, meth(v), tup_pat(k), sets.join(" "), rs.join(", ")),
            "C13:try_as_mut-method",
        );
    }
    src.push("        _ => None } }");
    src.push("    fn field_addrs(&self) -> Vec<usize> { match self {");
    for v in &e.variants {
        let ads: Vec<String> = (0..v.fields.len()).map(|i| format!("f{} as *const _ as *const u8 as usize", i)).collect();
        src.push(&format!("        {} => vec![{}],", bind_pat(&name, v), ads.join(", ")));
    }
    if e.variants.is_empty() {
        src.push("        _ => unreachable!(),");
    }
    src.push("    } }");
    src.push("}");
    for (j, v) in e.variants.iter().enumerate() {
        if v.disabled() && !disabled_probe_clash(e, v) {
            src.push(&format!(
                "mod probe_{j} {{ pub trait P {{ fn is_{m}(&self) -> bool {{ false }} }} impl P for super::{ty} {{}} }}",
                j = j,
                m = meth(v),
                ty = ty
            ));
        }
    }
    src.push(&format!("pub fn run(ctx: &mut vrt::Ctx) {{ {}::<{}>(ctx) }}", o.run_fn, ty));
    src.push("}");
    ModuleSrc { enum_name: e.name.clone(), src }
}

/// a disabled variant whose predicate name coincides with an enabled variant's cannot be probed
fn disabled_probe_clash(e: &EnumSpec, v: &VariantSpec) -> bool {
    let m = crate::model::snake_method(&v.ident);
    e.variants.iter().any(|w| !w.disabled() && crate::model::snake_method(&w.ident) == m)
}

// ---------------------------------------------------------------------------------------------
// table family (EnumTable)

pub fn module_table(e: &EnumSpec, o: &ModOpts) -> ModuleSrc {
    let mut src = Src::default();
    src.push(&format!("pub mod m_{} {{", e.name.to_lowercase()));
    let name = e.type_name();
    let mut eo = enum_opts(e, &name);
    let extra: &[&str] = &["Clone", "Copy"];
    eo.extra_std_derives = extra;
    src.ranged("def", |s| s.push(&enum_def(e, &eo)));
    src.push(&glue_base(e, &name, ""));
    let n = e.enabled_indices().len();
    let tb = format!("{}Table", name);
    src.push(&format!("impl vrt::tablefam::TGlue for {} {{", name));
    src.tagged(&format!("    type Tb = {}<i64>;", tb), "C10:table-type");
    let args = |p: &str| (0..n).map(|i| format!("{}[{}]", p, i)).collect::<Vec<_>>().join(", ");
    src.tagged(&format!("    fn new_seq(vals: &[i64]) -> Self::Tb {{ {}::new({}) }}", tb, args("vals")), "C10:new");
    src.tagged(&format!("    fn filled(x: i64) -> Self::Tb {{ {}::filled(x) }}", tb), "C10:filled");
    src.tagged(&format!("    fn from_closure(f: &dyn Fn(usize) -> i64) -> Self::Tb {{ {}::from_closure(|k: {}| f(vrt::Glue::idx(&k))) }}", tb, name), "C10:from_closure");
    src.tagged(&format!("    fn transform(t: &Self::Tb, f: &dyn Fn(usize, i64) -> i64) -> Self::Tb {{ t.transform(|k: {}, v: &i64| f(vrt::Glue::idx(&k), *v)) }}", name), "C10:transform");
    src.tagged("    fn get(t: &Self::Tb, k: usize) -> i64 { t[<Self as vrt::Glue>::make(k, &mut vrt::Draw::new(vec![]))] }", "C10:index");
    src.tagged("    fn set(t: &mut Self::Tb, k: usize, v: i64) { t[<Self as vrt::Glue>::make(k, &mut vrt::Draw::new(vec![]))] = v; }", "C10:index_mut");
    src.tagged(&format!("    fn all(opts: &[Option<i64>]) -> Option<Self::Tb> {{ {}::new({}).all() }}", tb, args("opts")), "C10:all");
    src.tagged(&format!("    fn all_ok(rs: &[::core::result::Result<i64, i64>]) -> ::core::result::Result<Self::Tb, i64> {{ {}::new({}).all_ok() }}", tb, args("rs")), "C10:all_ok");
    src.push("}");
    src.push(&format!("pub fn run(ctx: &mut vrt::Ctx) {{ {}::<{}>(ctx) }}", o.run_fn, name));
    src.push("}");
    ModuleSrc { enum_name: e.name.clone(), src }
}

// ---------------------------------------------------------------------------------------------
// discriminants family (EnumDiscriminants)

pub fn module_disc(e: &EnumSpec, o: &ModOpts) -> ModuleSrc {
    let mut src = Src::default();
    src.push(&format!("pub mod m_{} {{", e.name.to_lowercase()));
    let name = e.type_name();
    let opts = e.disc_opts.clone().unwrap_or_default();
    let dname = opts.name.clone().unwrap_or_else(|| format!("{}Discriminants", name));
    // private discriminant enum: the glue has to live next to it
    let private = opts.vis.as_deref() == Some("");
    let eo = enum_opts(e, &name);
    let g = generics(e, eo.t_bound, eo.t_inst);
    // (in the private case the whole glue sits inside `def`, next to the private type)
    src.push("pub mod def {");
    if e.parse_err() {
        src.push("pub fn mk_err(s: &str) -> vrt::MyErr { vrt::MyErr(s.to_string()) }");
    }
    src.ranged("def", |s| s.push(&enum_def(e, &eo)));
    if !private {
        src.push("}");
        // re-export with the enum's own visibility (a `pub use` of a restricted item is an error)
        let use_vis = match e.vis.as_str() {
            "pub" => "pub ",
            "pub(crate)" => "pub(crate) ",
            _ => "",
        };
        src.push(&format!("{}use self::def::{};", use_vis, name));
        src.tagged(&format!("use self::def::{} as D;", dname), "C09:name-and-visibility");
    } else {
        src.tagged(&format!("use self::{} as D;", dname), "C09:name-and-visibility");
    }
    src.push(&glue_base(e, &name, &g.inst));
    let ty = format!("{}{}", name, g.inst);
    let r = e.repr_int.clone().unwrap_or_else(|| "isize".to_string());
    // exhaustive, wildcard-free match with exactly the declared names: same variant set
    let arms: Vec<String> = e.variants.iter().enumerate().map(|(i, v)| format!("D::{} => {}", v.ident, i)).collect();
    if e.variants.is_empty() {
        src.tagged("fn d_idx(d: &D) -> usize { match *d {} }", "C09:variant-set");
    } else {
        src.tagged(&format!("fn d_idx(d: &D) -> usize {{ match d {{ {} }} }}", arms.join(", ")), "C09:variant-set");
    }
    src.tagged("fn assert_base<X: Copy + Clone + ::core::fmt::Debug + PartialEq + Eq>() {} fn _s() { assert_base::<D>(); }", "C09:base-derives");
    src.push(&format!("impl vrt::discfam::DGlue for {} {{", ty));
    src.tagged("    fn d_of_ref(&self) -> usize { d_idx(&<D as ::core::convert::From<&Self>>::from(self)) }", "C09:from-ref");
    src.tagged("    fn d_of_val(self) -> usize { d_idx(&<D as ::core::convert::From<Self>>::from(self)) }", "C09:from-value");
    let has_trait = matches!(opts.vis.as_deref(), None | Some("pub"));
    if has_trait {
        src.tagged("    fn d_of_trait(&self) -> Option<usize> { let d: D = strum::IntoDiscriminant::discriminant(self); Some(d_idx(&d)) }", "C09:into-discriminant");
    }
    src.push("    fn d_int(j: usize) -> i128 { match j {");
    for (i, v) in e.variants.iter().enumerate() {
        src.tagged(&format!("        {} => (D::{} as {}) as i128,", i, v.ident, r), "C09:cast");
    }
    src.push("        _ => panic!() } }");
    let fieldless = e.variants.iter().all(|v| v.kind == Kind::Unit);
    if fieldless && !e.has_generics() && !e.variants.is_empty() {
        src.push("    fn e_int(&self) -> Option<i128> { Some(match self {");
        for v in &e.variants {
            src.push(&format!("        {n}::{v} => ({n}::{v} as {r}) as i128,", n = name, v = v.ident, r = r));
        }
        src.push("    }) }");
    } else if e.repr_int.is_some() && !e.variants.is_empty() {
        src.push(&format!("    fn e_int(&self) -> Option<i128> {{ Some(unsafe {{ *(self as *const Self as *const {}) }} as i128) }}", r));
    }
    if e.repr_int.is_some() && !e.repr.as_deref().unwrap_or("").contains("align") {
        src.push(&format!("    fn d_sizes() -> Option<(usize, usize)> {{ Some((::core::mem::size_of::<D>(), ::core::mem::size_of::<{}>())) }}", r));
    } else if e.repr.as_deref() == Some("C") {
        // a field-less #[repr(C)] enum has the size of the platform's C int
        src.push("    fn d_sizes() -> Option<(usize, usize)> { Some((::core::mem::size_of::<D>() * 1000 + ::core::mem::align_of::<D>(), ::core::mem::size_of::<::core::ffi::c_int>() * 1000 + ::core::mem::align_of::<::core::ffi::c_int>())) }");
    }
    let has = |d: &str| opts.derives.iter().any(|x| x == d || x.ends_with(&format!("::{}", d)));
    if has("EnumIter") {
        src.tagged("    fn d_iter() -> Option<Vec<usize>> { Some(<D as strum::IntoEnumIterator>::iter().map(|d| d_idx(&d)).collect()) }", "C09:derive-EnumIter");
    }
    if has("EnumString") {
        // (the error type is pinned: D has no custom error unless one is passed through)
        src.tagged("    fn d_from_str(s: &str) -> Option<Option<usize>> { let r: ::core::result::Result<D, strum::ParseError> = <D as ::core::str::FromStr>::from_str(s); Some(r.ok().map(|d| d_idx(&d))) }", "C09:derive-EnumString");
    }
    if has("Display") {
        src.push("    fn d_display(j: usize) -> Option<String> { Some(match j {");
        for (i, v) in e.variants.iter().enumerate() {
            src.tagged(&format!("        {} => format!(\"{{}}\", D::{}),", i, v.ident), "C09:derive-Display");
        }
        src.push("        _ => panic!() }) }");
    }
    if has("Default") {
        src.tagged("    fn d_default() -> Option<usize> { Some(d_idx(&<D as ::core::default::Default>::default())) }", "C09:derive-Default");
    }
    if has("VariantNames") {
        src.tagged("    fn d_names() -> Option<Vec<String>> { Some(<D as strum::VariantNames>::VARIANTS.iter().map(|s| s.to_string()).collect()) }", "C09:derive-VariantNames");
    }
    if has("FromRepr") {
        // FromRepr only recognises a lone integer repr; with `align(..), u8` it takes usize (not C09's business)
        let rr = if e.repr.as_deref().unwrap_or("").contains("align") { "usize".to_string() } else { e.repr_int.clone().unwrap_or_else(|| "usize".to_string()) };
        src.tagged(&format!("    fn d_from_repr(d: i128) -> Option<Option<usize>> {{ let x: {} = ::core::convert::TryFrom::try_from(d).ok()?; Some(D::from_repr(x).map(|d| d_idx(&d))) }}", rr), "C09:derive-FromRepr");
    }
    src.push("}");
    if !has_trait {
        // with a restricted visibility override the derive does not implement IntoDiscriminant: a
        // hand-written impl must therefore not conflict (E0119 on this line = the override was ignored)
        src.tagged(&format!("impl strum::IntoDiscriminant for {} {{ type Discriminant = (); fn discriminant(&self) {{}} }}", ty), "C09:no-into-discriminant-when-restricted");
    }
    let std_ds: Vec<&str> = ["Hash", "PartialOrd", "Ord"].iter().copied().filter(|d| has(d)).collect();
    if !std_ds.is_empty() {
        let bounds: Vec<String> = std_ds.iter().map(|d| if *d == "Hash" { "::core::hash::Hash".to_string() } else { d.to_string() }).collect();
        src.tagged(&format!("fn assert_req<X: {}>() {{}} fn _r() {{ assert_req::<D>(); }}", bounds.join(" + ")), "C09:derive-std");
    }
    src.push(&format!("pub fn run(ctx: &mut vrt::Ctx) {{ {}::<{}>(ctx) }}", o.run_fn, ty));
    if private {
        src.push("}"); // end of def
        src.push("pub fn run(ctx: &mut vrt::Ctx) { def::run(ctx) }");
        // `vis()` makes the generated type private to its module: a glob import from outside must not
        // see it, so the name below resolves to the harness's own item; if the type were visible the
        // two glob imports would be ambiguous (E0659 on the tagged line)
        src.push(&format!("mod vis_probe {{ pub mod other {{ pub struct {d}; }} use super::def::*; use self::other::*;", d = dname));
        src.tagged(&format!("    fn _probe(_: {}) {{}}", dname), "C09:private-visibility");
        src.push("}");
    }
    src.push("}");
    ModuleSrc { enum_name: e.name.clone(), src }
}

/// the enum item alone (attributes + enum), without the helper functions emitted in front of it
pub fn enum_item(e: &EnumSpec, o: &EnumOpts) -> String {
    // the in-process engine parses the item itself: fragments are substituted textually (parenthesised)
    let mut e2;
    let mut e = e;
    if !e.macro_args.is_empty() {
        e2 = e.clone();
        for v in e2.variants.iter_mut() {
            if let Some(d) = v.disc.as_mut() {
                for (n, _, a) in &e.macro_args {
                    d.text = d.text.replace(&format!("${}", n), &format!("({})", a));
                }
            }
        }
        e2.macro_args.clear();
        e = &e2;
        // (an `$n:ident` fragment simply disappears: the item is emitted with its name written out)
    }
    let d = enum_def(e, o);
    match d.find("//@item\n") {
        Some(i) => d[i + 8..].to_string(),
        None => d,
    }
}
