//! Program-level reduction: smaller in-domain specs derived from a failing one.

use crate::spec::*;

pub fn size(e: &EnumSpec) -> usize {
    serde_json::to_string(e).unwrap().len()
}

fn fix_generics(e: &mut EnumSpec) {
    let uses = |e: &EnumSpec, t: FieldTy| e.variants.iter().any(|v| v.fields.iter().any(|f| f.ty == t));
    if e.type_param2 && !uses(e, FieldTy::Gen2) {
        e.type_param2 = false;
    }
    if e.type_param && !uses(e, FieldTy::Gen) && !e.type_param2 {
        e.type_param = false;
        e.where_clause = false;
    }
    if e.lifetime && !uses(e, FieldTy::RefStr) {
        e.lifetime = false;
    }
    if e.const_param && !uses(e, FieldTy::Phantom) {
        e.const_param = false;
    }
}

/// Candidate reductions, most aggressive first.
pub fn candidates(e: &EnumSpec) -> Vec<EnumSpec> {
    let mut out = Vec::new();
    // drop a variant
    for i in 0..e.variants.len() {
        let mut c = e.clone();
        c.variants.remove(i);
        fix_generics(&mut c);
        out.push(c);
    }
    // data variant -> unit variant
    for i in 0..e.variants.len() {
        if e.variants[i].kind != Kind::Unit {
            let mut c = e.clone();
            let v = &mut c.variants[i];
            v.kind = Kind::Unit;
            v.fields.clear();
            for g in v.groups.iter_mut() {
                g.retain(|a| !matches!(a, VAttr::Default | VAttr::Transparent | VAttr::DefaultWith));
                for a in g.iter_mut() {
                    if let VAttr::ToString(s) = a {
                        if s.contains('{') {
                            *s = s.replace('{', "(").replace('}', ")");
                        }
                    }
                }
            }
            v.groups.retain(|g| !g.is_empty());
            fix_generics(&mut c);
            out.push(c);
        }
    }
    // drop one enum-level attribute
    for gi in 0..e.groups.len() {
        for ai in 0..e.groups[gi].len() {
            let mut c = e.clone();
            c.groups[gi].remove(ai);
            c.groups.retain(|g| !g.is_empty());
            out.push(c);
        }
    }
    // drop one variant-level attribute
    for vi in 0..e.variants.len() {
        for gi in 0..e.variants[vi].groups.len() {
            for ai in 0..e.variants[vi].groups[gi].len() {
                let mut c = e.clone();
                c.variants[vi].groups[gi].remove(ai);
                c.variants[vi].groups.retain(|g| !g.is_empty());
                out.push(c);
            }
        }
        if e.variants[vi].fields.iter().any(|f| f.default_with) {
            let mut c = e.clone();
            for f in c.variants[vi].fields.iter_mut() {
                f.default_with = false;
            }
            out.push(c);
        }
        if !e.variants[vi].docs.is_empty() {
            let mut c = e.clone();
            c.variants[vi].docs.clear();
            out.push(c);
        }
        if e.variants[vi].disc.is_some() {
            let mut c = e.clone();
            c.variants[vi].disc = None;
            out.push(c);
        }
        // drop one field
        if e.variants[vi].fields.len() > 1 && !e.variants[vi].has(|a| matches!(a, VAttr::ToString(s) if s.contains('{'))) {
            let mut c = e.clone();
            c.variants[vi].fields.pop();
            fix_generics(&mut c);
            out.push(c);
        }
    }
    if e.repr.is_some() && e.variants.iter().all(|v| v.disc.is_none() || v.kind == Kind::Unit) {
        let mut c = e.clone();
        let neg = crate::model::discs(&c).iter().any(|d| *d < 0);
        if !neg {
            c.repr = None;
            c.repr_int = None;
            if c.base_const.is_none() {
                out.push(c);
            }
        }
    }
    out.retain(|c| c != e);
    out
}
