pub mod spec;
pub mod model;
pub mod emit;
pub mod gen;
pub mod pools;
pub mod reduce;
pub mod malformed;
pub mod plain;

pub fn fnv(b: &[u8]) -> u64 {
    let mut h: u64 = 0xcbf29ce484222325;
    for x in b {
        h ^= *x as u64;
        h = h.wrapping_mul(0x100000001b3);
    }
    h
}

/// splitmix-style seed derivation: hash(seed, tag, a, b)
pub fn derive_seed(seed: u64, tag: &str, a: u64, b: u64) -> u64 {
    let mut v = Vec::new();
    v.extend_from_slice(&seed.to_le_bytes());
    v.extend_from_slice(tag.as_bytes());
    v.extend_from_slice(&a.to_le_bytes());
    v.extend_from_slice(&b.to_le_bytes());
    fnv(&v)
}
