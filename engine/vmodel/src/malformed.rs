//! Attribute grammar for input outside the documented domain (C20, DESIGN §5.4).
//! Every case is tagged with the rejection rule it instantiates and with the derives that
//! *consume* the offending construct and therefore must reject it.

use crate::gen::Rg;

pub const ALL_DERIVES: [&str; 17] = [
    "EnumString", "AsRefStr", "VariantNames", "VariantArray", "AsStaticStr", "IntoStaticStr", "ToString", "Display",
    "EnumIter", "EnumIs", "EnumTryAs", "EnumTable", "FromRepr", "EnumMessage", "EnumProperty", "EnumDiscriminants", "EnumCount",
];

#[derive(Clone, Debug, serde::Serialize, serde::Deserialize)]
pub struct Case {
    /// rule name; "valid" for controls, "shape" for malformed attribute syntax (no-panic only)
    pub rule: String,
    /// sub-variation, human readable
    pub variation: String,
    /// the item without any #[derive]; its name is the placeholder `ITEM`
    pub source: String,
    /// derives that must reject
    pub must_reject: Vec<String>,
    /// derives that must accept (controls)
    pub must_accept: Vec<String>,
}

fn d(list: &[&str]) -> Vec<String> {
    list.iter().map(|s| s.to_string()).collect()
}

const FILLERS: [&str; 10] = [
    "Red",
    "#[strum(serialize = \"grn\")] Green",
    "#[strum(to_string = \"blue-ish\")] Blue",
    "#[strum(message = \"m\", detailed_message = \"dm\")] Msg",
    "#[strum(props(k = \"v\", n = 3, b = true))] Prop",
    "#[strum(ascii_case_insensitive)] Ci",
    "/// documented\n    Doc",
    "#[strum(serialize = \"a\", serialize = \"ab\")] Multi",
    "Plain2",
    "#[strum(props(z = -5))] #[strum(serialize = \"neg\")] Neg",
];

/// assemble an enum: `bad` is placed at position `pos` among `n_fill` valid unit variants
fn assemble(rg: &mut Rg, enum_attrs: &[String], generics: &str, bad: &[String], unit_only: bool) -> (String, String) {
    let _ = unit_only;
    let n_fill = rg.range(0, 3);
    let mut fill: Vec<String> = Vec::new();
    let mut idx: Vec<usize> = (0..FILLERS.len()).collect();
    rg.shuffle(&mut idx);
    for i in 0..n_fill {
        fill.push(FILLERS[idx[i]].to_string());
    }
    let mut vars: Vec<String> = fill;
    let mut where_: Vec<String> = Vec::new();
    for b in bad {
        let p = rg.range(0, vars.len());
        where_.push(format!("{}/{}", p, vars.len()));
        vars.insert(p, b.clone());
    }
    let mut s = String::new();
    for a in enum_attrs {
        s.push_str(a);
        s.push('\n');
    }
    s.push_str(&format!("pub enum ITEM{} {{\n", generics));
    for v in &vars {
        s.push_str("    ");
        s.push_str(v);
        s.push_str(",\n");
    }
    s.push_str("}\n");
    (s, format!("pos {}", where_.join(",")))
}

/// `#[strum(a, a)]` / `#[strum(a)] #[strum(a)]` / with another item in between
fn repeat_attr(rg: &mut Rg, item1: &str, item2: &str, other: Option<&str>) -> (String, &'static str) {
    match rg.below(if other.is_some() { 4 } else { 2 }) {
        0 => (format!("#[strum({}, {})]", item1, item2), "same-attribute"),
        1 => (format!("#[strum({})] #[strum({})]", item1, item2), "two-attributes"),
        2 => (format!("#[strum({}, {}, {})]", item1, other.unwrap(), item2), "same-attribute-interleaved"),
        _ => (format!("#[strum({})] #[strum({})] #[strum({})]", item1, other.unwrap(), item2), "three-attributes"),
    }
}

pub const RULES: [&str; 30] = [
    "struct-or-union",
    "data-variant",
    "lifetime-parameter",
    "repeated-disabled",
    "repeated-to_string",
    "repeated-default",
    "repeated-default_with",
    "repeated-default_with-field",
    "repeated-ascii_case_insensitive",
    "repeated-message",
    "repeated-detailed_message",
    "repeated-transparent",
    "repeated-serialize_all",
    "repeated-prefix",
    "repeated-crate",
    "repeated-use_phf",
    "repeated-const_into_str",
    "repeated-parse_err_ty",
    "repeated-parse_err_fn",
    "repeated-enum-ascii_case_insensitive",
    "repeated-discriminants-name",
    "repeated-discriminants-vis",
    "two-default-variants",
    "default-wrong-field-count",
    "transparent-wrong-field-count",
    "placeholder-on-unit",
    "unknown-serialize_all",
    "half-parse_err",
    "unsupported-prop-literal",
    "shape",
];

const READS_VARIANT_PROPS: [&str; 12] = [
    "EnumString", "Display", "AsRefStr", "IntoStaticStr", "EnumIter", "EnumCount", "EnumIs", "EnumTryAs", "EnumTable", "FromRepr",
    "EnumMessage", "EnumProperty",
];

pub fn gen_case(rg: &mut Rg, rule: &str) -> Case {
    let kinds1 = ["(String)", " { inner: String }"];
    let mut must: Vec<String>;
    let variation: String;
    let source: String;
    match rule {
        "struct-or-union" => {
            let forms = [
                "pub struct ITEM { a: u8 }",
                "pub struct ITEM(u8, String);",
                "pub struct ITEM;",
                "pub union ITEM { a: u8, b: u32 }",
                "#[strum(serialize_all = \"snake_case\")]\npub struct ITEM { a: u8 }",
                "pub struct ITEM<T> { a: T }",
                "pub struct ITEM { #[strum(default_with = \"f\")] a: u8 }",
            ];
            let i = rg.below(forms.len());
            source = forms[i].to_string() + "\n";
            variation = format!("form {}", i);
            must = d(&ALL_DERIVES);
        }
        "data-variant" => {
            let forms = ["Data(u8)", "Data { x: u8 }", "Data()", "Data {}", "Data(u8, String)", "#[strum(serialize = \"d\")] Data(bool)"];
            let i = rg.below(forms.len());
            let (s, p) = assemble(rg, &[], "", &[forms[i].to_string()], true);
            source = s;
            variation = format!("{} {}", forms[i], p);
            must = d(&["VariantArray", "EnumTable"]);
        }
        "lifetime-parameter" => {
            // the lifetime may be used by enabled or only by disabled variants: the derive must refuse either way
            let forms = ["Ref(&'a str)", "Named { r: &'a u8 }", "Ph(::core::marker::PhantomData<&'a ()>)", "#[strum(disabled)] Ref(&'a str)", "#[strum(disabled)] Named { r: &'a u8 }"];
            let i = rg.below(forms.len());
            let g = if rg.chance(1, 2) { "<'a>" } else { "<'a, T>" };
            let mut bad = vec![forms[i].to_string()];
            if g.contains('T') {
                bad.push("Gen(T)".to_string());
            }
            let (s, p) = assemble(rg, &[], g, &bad, false);
            source = s;
            variation = format!("{} {} {}", g, forms[i], p);
            must = d(&["EnumIter", "FromRepr", "EnumTable"]);
        }
        "repeated-disabled" => {
            let (a, how) = repeat_attr(rg, "disabled", "disabled", Some("serialize = \"x\""));
            let kind = *rg.pick(&["", "(u8)", " { x: u8 }"]);
            let (s, p) = assemble(rg, &[], "", &[format!("{} Bad{}", a, kind)], false);
            source = s;
            variation = format!("{} kind[{}] {}", how, kind, p);
            must = d(&READS_VARIANT_PROPS);
            if !kind.is_empty() {
                must.retain(|x| x != "EnumTable");
            }
        }
        "repeated-to_string" => {
            let (a, how) = repeat_attr(rg, "to_string = \"a\"", "to_string = \"b\"", Some("serialize = \"x\""));
            let kind = *rg.pick(&["", "(u8)", " { x: u8 }"]);
            let (s, p) = assemble(rg, &[], "", &[format!("{} Bad{}", a, kind)], false);
            source = s;
            variation = format!("{} kind[{}] {}", how, kind, p);
            must = d(&["EnumString", "Display", "AsRefStr", "IntoStaticStr", "VariantNames"]);
        }
        "repeated-default" => {
            let (a, how) = repeat_attr(rg, "default", "default", Some("serialize = \"x\""));
            let kind = *rg.pick(&kinds1);
            let (s, p) = assemble(rg, &[], "", &[format!("{} Bad{}", a, kind)], false);
            source = s;
            variation = format!("{} kind[{}] {}", how, kind, p);
            must = d(&["EnumString"]);
        }
        "repeated-default_with" => {
            let (a, how) = repeat_attr(rg, "default_with = \"f\"", "default_with = \"g\"", Some("serialize = \"x\""));
            let (s, p) = assemble(rg, &[], "", &[format!("{} Bad(u8)", a)], false);
            source = s;
            variation = format!("{} {}", how, p);
            must = d(&["EnumString"]);
        }
        "repeated-default_with-field" => {
            let (a, how) = repeat_attr(rg, "default_with = \"f\"", "default_with = \"g\"", None);
            let (s, p) = assemble(rg, &[], "", &[format!("Bad {{ {} x: u8, y: u8 }}", a)], false);
            source = s;
            variation = format!("{} {}", how, p);
            must = d(&["EnumString"]);
        }
        "repeated-ascii_case_insensitive" => {
            let forms = ["ascii_case_insensitive", "ascii_case_insensitive = true", "ascii_case_insensitive = false"];
            let (i, j) = (rg.below(3), rg.below(3));
            let (a, how) = repeat_attr(rg, forms[i], forms[j], Some("serialize = \"x\""));
            let kind = *rg.pick(&["", "(u8)", " { x: u8 }"]);
            let (s, p) = assemble(rg, &[], "", &[format!("{} Bad{}", a, kind)], false);
            source = s;
            variation = format!("{} [{}|{}] kind[{}] {}", how, forms[i], forms[j], kind, p);
            must = d(&["EnumString"]);
        }
        "repeated-message" | "repeated-detailed_message" => {
            let k = if rule == "repeated-message" { "message" } else { "detailed_message" };
            let (a, how) = repeat_attr(rg, &format!("{} = \"a\"", k), &format!("{} = \"b\"", k), Some("serialize = \"x\""));
            let kind = *rg.pick(&["", "(u8)", " { x: u8 }"]);
            let (s, p) = assemble(rg, &[], "", &[format!("{} Bad{}", a, kind)], false);
            source = s;
            variation = format!("{} kind[{}] {}", how, kind, p);
            must = d(&["EnumMessage"]);
        }
        "repeated-transparent" => {
            let (a, how) = repeat_attr(rg, "transparent", "transparent", None);
            let kind = *rg.pick(&["(&'static str)", " { inner: &'static str }"]);
            let (s, p) = assemble(rg, &[], "", &[format!("{} Bad{}", a, kind)], false);
            source = s;
            variation = format!("{} kind[{}] {}", how, kind, p);
            must = d(&["Display", "AsRefStr", "IntoStaticStr"]);
        }
        "repeated-serialize_all" | "repeated-prefix" | "repeated-crate" | "repeated-use_phf" | "repeated-const_into_str"
        | "repeated-parse_err_ty" | "repeated-parse_err_fn" | "repeated-enum-ascii_case_insensitive" => {
            let (i1, i2, extra, m): (&str, &str, Vec<&str>, Vec<&str>) = match rule {
                "repeated-serialize_all" => (
                    "serialize_all = \"snake_case\"",
                    *rg.pick(&["serialize_all = \"snake_case\"", "serialize_all = \"kebab-case\""]),
                    vec![],
                    vec!["EnumString", "Display", "AsRefStr", "IntoStaticStr", "VariantNames", "EnumMessage"],
                ),
                "repeated-prefix" => ("prefix = \"p\"", *rg.pick(&["prefix = \"p\"", "prefix = \"q\""]), vec![], vec!["Display", "AsRefStr", "IntoStaticStr", "VariantNames"]),
                "repeated-crate" => (
                    "crate = \"::strum\"",
                    "crate = \"::strum\"",
                    vec![],
                    vec!["EnumString", "EnumIter", "EnumCount", "VariantNames", "VariantArray", "EnumMessage", "EnumProperty", "EnumDiscriminants"],
                ),
                "repeated-use_phf" => ("use_phf", "use_phf", vec![], vec!["EnumString"]),
                "repeated-const_into_str" => ("const_into_str", "const_into_str", vec![], vec!["IntoStaticStr"]),
                "repeated-parse_err_ty" => ("parse_err_ty = MyErr", "parse_err_ty = MyErr", vec!["#[strum(parse_err_fn = mk_err)]"], vec!["EnumString"]),
                "repeated-parse_err_fn" => ("parse_err_fn = mk_err", "parse_err_fn = mk_err", vec!["#[strum(parse_err_ty = MyErr)]"], vec!["EnumString"]),
                _ => ("ascii_case_insensitive", "ascii_case_insensitive", vec![], vec!["EnumString"]),
            };
            let (a, how) = repeat_attr(rg, i1, i2, None);
            let mut attrs: Vec<String> = extra.iter().map(|s| s.to_string()).collect();
            let at = rg.range(0, attrs.len());
            attrs.insert(at, a);
            let (s, p) = assemble(rg, &attrs, "", &[], false);
            // at least one variant so that every derive has something to do
            source = s.replace("{\n}", "{\n    Only,\n}");
            variation = format!("{} {}", how, p);
            must = d(&m);
        }
        "repeated-discriminants-name" | "repeated-discriminants-vis" => {
            let (i1, i2) = if rule.ends_with("name") { ("name(AName)", "name(BName)") } else { ("vis(pub)", "vis(pub(crate))") };
            let a = match rg.below(2) {
                0 => format!("#[strum_discriminants({}, {})]", i1, i2),
                _ => format!("#[strum_discriminants({})]\n#[strum_discriminants({})]", i1, i2),
            };
            let (s, p) = assemble(rg, &[a], "", &["Data(u8)".to_string()], false);
            source = s;
            variation = p;
            must = d(&["EnumDiscriminants"]);
        }
        "two-default-variants" => {
            let k1 = *rg.pick(&kinds1);
            let k2 = *rg.pick(&kinds1);
            let (s, p) = assemble(rg, &[], "", &[format!("#[strum(default)] DefA{}", k1), format!("#[strum(default)] DefB{}", k2)], false);
            source = s;
            variation = format!("[{}] [{}] {}", k1, k2, p);
            must = d(&["EnumString"]);
        }
        "default-wrong-field-count" => {
            let kind = *rg.pick(&["", "()", " {}", "(String, String)", " { a: String, b: String }", "(String, u8, u8)"]);
            let (s, p) = assemble(rg, &[], "", &[format!("#[strum(default)] Def{}", kind)], false);
            source = s;
            variation = format!("kind[{}] {}", kind, p);
            must = d(&["EnumString", "Display"]);
        }
        "transparent-wrong-field-count" => {
            let kind = *rg.pick(&["", "()", " {}", "(&'static str, &'static str)", " { a: &'static str, b: &'static str }"]);
            let (s, p) = assemble(rg, &[], "", &[format!("#[strum(transparent)] Tr{}", kind)], false);
            source = s;
            variation = format!("kind[{}] {}", kind, p);
            must = d(&["Display", "AsRefStr", "IntoStaticStr"]);
        }
        "placeholder-on-unit" => {
            let lits = ["x{0}", "{}", "{name}", "{0:>4}", "pre {a} post", "{{}}{0}", "{x:?}", "日本 {amount} 円", "éé{0}", "ünï {x} ß", "🦀{}"];
            let l = *rg.pick(&lits);
            let extra = if rg.chance(1, 3) { ", serialize = \"plain\"" } else { "" };
            // the placeholder reaches the printed name through to_string, through the (longest) serialize
            // literal, or through the enum's prefix
            let (s, p) = match rg.below(4) {
                0 | 1 => assemble(rg, &[], "", &[format!("#[strum(to_string = \"{}\"{})] Unit", l, extra)], false),
                2 => assemble(rg, &[], "", &[format!("#[strum(serialize = \"long name with {}\", serialize = \"s\")] Unit", l)], false),
                _ => {
                    let (s, p) = assemble(rg, &[format!("#[strum(prefix = \"pre{}\")]", l)], "", &[], false);
                    (s.replace("{\n}", "{\n    Only,\n}"), format!("via prefix {}", p))
                }
            };
            source = s;
            variation = format!("lit[{}] {}", l, p);
            must = d(&["Display"]);
        }
        "unknown-serialize_all" => {
            let styles = [
                "snake-case", "Snake_Case", "SNAKE_CASE", "camelcase", "", "kebab", "PascalCase ", "pascal_case", "UPPER_CASE", "title case",
                "Title_Case", "train-case", "SCREAMING_KEBAB_CASE", "SCREAMING-SNAKE-CASE", "mixedCase", "lower_case", "snake_case\n", " camelCase",
                "Kebab-Case", "shouty_kebab_case", "uppercase", "LOWERCASE", "Train_Case", "sentence case",
            ];
            let st = *rg.pick(&styles);
            let (s, p) = assemble(rg, &[format!("#[strum(serialize_all = {:?})]", st)], "", &[], false);
            source = s.replace("{\n}", "{\n    Only,\n}");
            variation = format!("style[{:?}] {}", st, p);
            must = d(&["EnumString", "Display", "AsRefStr", "IntoStaticStr", "VariantNames", "EnumMessage"]);
        }
        "half-parse_err" => {
            let a = *rg.pick(&["#[strum(parse_err_ty = MyErr)]", "#[strum(parse_err_fn = mk_err)]", "#[strum(serialize_all = \"snake_case\", parse_err_fn = mk_err)]"]);
            let (s, p) = assemble(rg, &[a.to_string()], "", &[], false);
            // with a catch-all variant the error type is never produced, but half a pair is rejected all the same
            // (seeded change C20-31 looked at the pair only when there was no `default` variant)
            let body = *rg.pick(&["    Only,\n", "    Only,\n    #[strum(default)]\n    Other(String),\n", "    #[strum(default)]\n    Other { inner: String },\n    Only,\n"]);
            source = s.replace("{\n}", &format!("{{\n{}}}", body));
            variation = format!("{} {} body[{}]", a, p, body.matches("default").count() + body.matches("inner").count());
            must = d(&["EnumString"]);
        }
        "unsupported-prop-literal" => {
            let lits = ["1.5", "'c'", "b'x'", "b\"bytes\"", "-2.5", "1e3", "c\"cstr\"", "1.0f32"];
            let l = *rg.pick(&lits);
            let grp = match rg.below(5) {
                0 => format!("#[strum(props(k = {}))]", l),
                1 => format!("#[strum(props(a = \"s\", k = {}, z = 1))]", l),
                2 => format!("#[strum(props(a = true))] #[strum(props(k = {}))]", l),
                // the key was already declared with a supported literal: the second declaration is still unsupported
                3 => format!("#[strum(props(k = 11))] #[strum(props(k = {}))]", l),
                _ => format!("#[strum(props(k = \"v\", k = {}))]", l),
            };
            let kind = *rg.pick(&["", "(u8)", " { x: u8 }"]);
            let (s, p) = assemble(rg, &[], "", &[format!("{} Bad{}", grp, kind)], false);
            source = s;
            variation = format!("lit[{}] kind[{}] {}", l, kind, p);
            must = d(&["EnumProperty"]);
        }
        "shape" => {
            // malformed attribute syntax: only "never panics" is demanded
            let attrs = [
                "#[strum(serialize)]", "#[strum(serialize = 5)]", "#[strum(to_string(\"x\"))]", "#[strum(unknown_key)]", "#[strum(disabled = true)]",
                "#[strum(props(a))]", "#[strum(props(a = ))]", "#[strum]", "#[strum = \"x\"]", "#[strum()]", "#[strum(,)]", "#[strum(default_with = \"m::mk\")]",
                "#[strum(default_with = \"\")]", "#[strum(default_with = \"1x\")]", "#[strum(default_with = 3)]", "#[strum(message = b\"x\")]",
                "#[strum(ascii_case_insensitive = 1)]", "#[strum(props(\"a\" = 1))]", "#[strum(props(a = 1 b = 2))]", "#[strum(serialize = \"a\" serialize = \"b\")]",
                "#[strum(to_string = \"{\")]", "#[strum(to_string = \"}\")]", "#[strum(to_string = \"{0\")]", "#[strum(to_string = \"{ 0 }\")]", "#[strum(to_string = \"{0}{1}{2}\")]",
                "#[strum(to_string = \"{é}\")]", "#[strum(to_string = \"{:}\")]", "#[strum(to_string = \"{0:{1}}\")]", "#[strum(props(r#type = \"x\"))]",
                "#[strum(default_with = \"r#fn\")]", "#[strum(transparent, default)]", "#[strum(default, disabled)]", "#[strum(props())]",
                // malformed pass-through attributes on a VARIANT (EnumDiscriminants copies them)
                "#[strum_discriminants]", "#[strum_discriminants()]", "#[strum_discriminants = \"x\"]", "#[strum_discriminants(strum(serialize = \"a\"), strum(serialize = \"b\"))]",
                "#[strum_discriminants(cfg(any()))]", "#[strum_discriminants(doc = \"d\")]",
            ];
            let a = *rg.pick(&attrs);
            let kind = *rg.pick(&["", "(u8)", " { x: u8 }", "(String)", "(u8, u8)"]);
            let enum_level = rg.chance(1, 6);
            let e_attrs = [
                "#[strum(serialize_all = snake_case)]", "#[strum(serialize_all)]", "#[strum(crate = \"not a path!\")]", "#[strum(crate = strum)]", "#[strum(prefix = 5)]",
                "#[strum(parse_err_ty = \"MyErr\", parse_err_fn = mk_err)]", "#[strum_discriminants(name = \"X\")]", "#[strum_discriminants(vis(what))]",
                "#[strum_discriminants()]", "#[strum_discriminants(derive)]", "#[strum_discriminants]", "#[strum_discriminants(derive(), name())]", "#[repr()]",
                "#[repr(align(4))]", "#[repr(u8, C)]", "#[strum(use_phf = true)]", "#[strum_discriminants(strum)]", "#[strum_discriminants(name(r#type))]",
            ];
            let names = ["ITEM", "ITEM", "ITEM"];
            let _ = names;
            if rg.chance(1, 8) {
                // raw identifiers as enum / variant / field names
                let v = *rg.pick(&["r#type", "r#match(u8)", "r#fn { r#type: u8 }", "#[strum(disabled)] r#loop", "#[strum(props(r#type = \"x\"))] r#Self_"]);
                let (s, p) = assemble(rg, &[], "", &[v.to_string()], false);
                source = if rg.chance(1, 2) { s.replace("enum ITEM", "enum r#ITEM") } else { s };
                variation = format!("raw identifiers {} {}", v, p);
            } else if enum_level {
                let ea = *rg.pick(&e_attrs);
                let (s, p) = assemble(rg, &[ea.to_string()], "", &[format!("Var{}", kind)], false);
                source = s;
                variation = format!("enum-level {} {}", ea, p);
            } else {
                let field_level = rg.chance(1, 6);
                let bad = if field_level { format!("Var {{ {} x: u8 }}", a) } else { format!("{} Var{}", a, kind) };
                let (s, p) = assemble(rg, &[], "", &[bad], false);
                source = s;
                variation = format!("{} kind[{}] {}", a, kind, p);
            }
            must = vec![];
        }
        other => panic!("unknown rule {}", other),
    }
    Case { rule: rule.to_string(), variation, source, must_reject: must, must_accept: vec![] }
}

/// valid controls: hand-written shapes that every listed derive accepts
pub fn controls() -> Vec<Case> {
    let mut out = Vec::new();
    let mut add = |variation: &str, source: &str, acc: &[&str]| {
        out.push(Case { rule: "valid".into(), variation: variation.into(), source: source.into(), must_reject: vec![], must_accept: d(acc) });
    };
    add(
        "unit-only with every single-use attribute once",
        "#[strum(serialize_all = \"snake_case\", prefix = \"p\", ascii_case_insensitive)]\npub enum ITEM {\n    #[strum(serialize = \"a\", to_string = \"b\", message = \"m\", detailed_message = \"d\", props(k = \"v\", n = 1, t = true), ascii_case_insensitive = false)]\n    A,\n    #[strum(disabled)]\n    B,\n    /// doc\n    C,\n}\n",
        &["EnumString", "AsRefStr", "VariantNames", "VariantArray", "AsStaticStr", "IntoStaticStr", "ToString", "Display", "EnumIter", "EnumIs", "EnumTryAs", "EnumTable", "FromRepr", "EnumMessage", "EnumProperty", "EnumDiscriminants", "EnumCount"],
    );
    add(
        "data variants with default / transparent / default_with / placeholders",
        "pub enum ITEM {\n    #[strum(default)]\n    D(String),\n    #[strum(transparent)]\n    T { inner: &'static str },\n    #[strum(default_with = \"f\")]\n    W(u8),\n    #[strum(to_string = \"v={0} {1:>3}\")]\n    P(u8, u8),\n    #[strum(to_string = \"n={x}\")]\n    N { x: u8, #[strum(default_with = \"g\")] y: u8 },\n}\n",
        &["EnumString", "AsRefStr", "VariantNames", "AsStaticStr", "IntoStaticStr", "Display", "EnumIter", "EnumIs", "EnumTryAs", "FromRepr", "EnumMessage", "EnumProperty", "EnumDiscriminants", "EnumCount"],
    );
    add(
        "generics, repr, explicit discriminants, custom error, discriminants options",
        "#[repr(u8)]\n#[strum(parse_err_ty = MyErr, parse_err_fn = mk_err, crate = \"::strum\", const_into_str)]\npub enum ITEM<T: Default> {\n    A = 3,\n    B(T) = 1 << 3,\n    #[strum(disabled)]\n    C { x: T },\n}\n",
        &["EnumString", "AsRefStr", "VariantNames", "AsStaticStr", "IntoStaticStr", "ToString", "Display", "EnumIter", "EnumIs", "EnumTryAs", "FromRepr", "EnumMessage", "EnumProperty", "EnumDiscriminants", "EnumCount"],
    );
    add(
        "discriminants options",
        "#[repr(u8)]\n#[strum_discriminants(name(Kind), vis(pub), derive(Hash), doc = \"d\")]\npub enum ITEM<T> {\n    A = 3,\n    #[strum_discriminants(doc = \"x\")]\n    B(T) = 1 << 3,\n    C { x: T },\n}\n",
        &["EnumDiscriminants"],
    );
    // derives that match on `&self` (EnumMessage, EnumProperty, EnumDiscriminants, ...) do not compile for a
    // zero-variant enum; no listed property covers that, so the control only names the others
    add("empty enum", "pub enum ITEM {}\n", &["EnumString", "VariantNames", "VariantArray", "Display", "EnumIter", "FromRepr", "EnumCount"]);
    add(
        "lifetime where it is allowed",
        "pub enum ITEM<'a> {\n    A(&'a str),\n    B,\n}\n",
        &["EnumString", "AsRefStr", "VariantNames", "IntoStaticStr", "Display", "EnumIs", "EnumTryAs", "EnumMessage", "EnumProperty", "EnumDiscriminants", "EnumCount"],
    );
    add(
        "use_phf",
        "#[derive(Clone)]\n#[strum(use_phf, ascii_case_insensitive)]\npub enum ITEM {\n    #[strum(serialize = \"blue\")]\n    A,\n    B,\n}\n",
        &["EnumString"],
    );
    out
}
